"""C09 Replicated run state survives the wire unchanged.

Generated run states are pushed through the real path
  _outgoing_to_json -> _tcp_send (header format + crypto.encrypt, bytes captured by a fake socket)
  -> crypto.decrypt -> _split_plaintext -> _incoming_from_json
(and, additionally, through _tcp_incoming_handle_client + _update to a subscriber's on_distributed_update) and
compared (a) structurally, (b) textually with what was sent, (c) with the Coq model's wire text.

End to end (Properties/C09e2e.v, Model/Pipeline.v): the same (message, cut, clock) goes through the REAL sender
(on_decider_update / snapshot -> one iteration of the real _tcp_outgoing -> _tcp_send -> crypto.encrypt, bytes
captured at sendall; Crypto.Cipher.AES.new replaced by the Python mirror of the model's toy cipher and the nonce
scripted, so that model and implementation produce the same bytes) and the REAL receiver
(_tcp_incoming_handle_client on a scripted socket and clock, then _update()), and is compared with
`send_receive` evaluated in Coq: bytes on the wire, device-manager state, incoming queue, records delivered to
on_distributed_update."""
import json
import struct
import time

import common
from common import zs, zz

PROP = "C09"
PROPERTY_FILES = ["Properties/C09.v", "Properties/C09e2e.v", "Properties/C06lists.v"]
META = dict(
    level_text="Theorems (Coq, closed under the global context; json.dumps/loads and the cipher are explicit premises, "
               "shown satisfiable): for EVERY run record accepted by the constructors -- any identifiers, index, "
               "grouped history of simple/complex/action events nested to any depth, any group names and order, any "
               "JSON data -- from_json_str(to_json_str(r)) = r and re-serialising gives the same text; the header "
               "split inverts the header format for any urn/key without spaces, any integers and any payload text; "
               "a whole message (three lists) survives serialisation, header, encryption, decryption, split and "
               "decoding. Tie to the code: the model's wire text is computed inside Coq and compared with the real "
               "wire text parsed level by level; an independent oracle checks structural and textual identity on "
               "the implementation for bounded-exhaustive small shapes and seeded random states.  END TO END "
               "(Properties/C09e2e.v over Model/Pipeline.v, which only composes the functions of Wire.v, Crypto.v, Recv.v "
               "and Auth.v): for every message a sender builds (any urn/key without spaces of a device the receiver "
               "knows, any type/flags, any three lists of run records), every cut of the encrypted byte stream into "
               "reads of 1..recv_bytes bytes (a last read shorter than min_length included) and every timely clock, "
               "the receiver's queue gets exactly one entry EQUAL to the sender's lists, the peer's address/contact "
               "times change as C11 says and nothing else changes; premises: json laws, gcm_laws/utf8_laws, C10's "
               "no-premature-marker (D7).  That the plaintext never ends in U+0000 (D14) is proved, not assumed; the "
               "two models of _split_plaintext (Wire/Auth) are proved to agree.  Tie: the same (message, cut, clock) "
               "through the real sender (_tcp_outgoing iteration, toy cipher injected so bytes coincide) and the real "
               "receiver (_tcp_incoming_handle_client on a scripted socket + _update()) vs send_receive evaluated in "
               "Coq on the real JSON text: bytes on the wire, device-manager state, queue, delivered records.",
    level_note="Trusted: Coq kernel/vm_compute; the harness (generators, the level-by-level parser of the real wire "
               "text, fake sockets). Modelled, not verified: CPython json (premises loads_dumps, dumps_text, "
               "dumps_obj_brace, exercised on every case by the oracle), AES-GCM (premise crypto_roundtrip = C17). "
               "Fields are modelled at their annotated types; the receiver's recursion limit is the fuel parameter "
               "(theorems hold for every fuel >= nesting depth). Proof level is complete for the property as stated.",
    rule="run records with all three event kinds, nesting depth 0..3, group names incl. '' / unicode / quotes / "
         "backslashes / NUL / BOBO, the same inside identifiers and data, numbers at int/float edges, empty, one-event "
         "and large histories, 0..3 records per list; bounded-exhaustive small shapes first, then seeded random; "
         "non-trivial = the state contains a nested history (complex event) or a character that JSON must escape",
    trusted_base=["harness: generators, level-by-level parser of the real wire text (json.loads per level) and its "
                  "re-encoding in the model's concrete codec, fake socket capturing _tcp_send's bytes",
                  "CPython json.dumps/json.loads, dict insertion order; PyCryptodome AES-GCM",
                  "end to end: stepped_tcp.py fakes (socket/time modules, SteppedTCP), pC17's scripted get_random_bytes "
                  "and Python mirror of the toy cipher in place of Crypto.Cipher.AES.new; Model/Pipeline.v's executable "
                  "CPython-json text codec jdumps/jloads (float texts from a table), used to run the model on the real "
                  "bytes only - no theorem mentions it; the three-line model of _update (deliveries)"],
    assumptions=["loads_dumps: json.loads(json.dumps(x)) == x (types and dict order kept) for every JSON value x "
                 "(distinct str keys, text strings, finite floats, ints below CPython's 4300-digit str limit)",
                 "dumps_text: json.dumps returns text that UTF-8 can carry (default ensure_ascii: ASCII)",
                 "dumps_obj_brace: the text of a dict ends in '}' (so the plaintext never ends in U+0000, D14)",
                 "crypto_roundtrip: decrypt(encrypt(s)) == s unless s ends in U+0000 (C17's theorem)",
                 "the receiver's recursion budget is at least the nesting depth of the state (CPython: ~1000 frames; "
                 "the wire text grows about 4x per nesting level, so memory is exhausted long before)",
                 "NaN / Infinity, tuples, non-str dict keys and lone surrogates are not JSON values: probed and "
                 "counted separately, never reported",
                 "end to end: gcm_laws / utf8_laws (C17's premises; the toy cipher and the strict UTF-8 codec satisfy "
                 "them, proved); no_premature (C10's premise, known finding D7): no proper prefix of the byte stream "
                 "that ends at a read boundary is >= min_length and ends in BOBO - checked on every generated case, "
                 "cases outside it are still compared with the model; the nonce draw has the configured length and "
                 "AES.new accepts the configuration (otherwise encrypt raises: compared too); the receiver knows the "
                 "sending device and has room in its queue; end-to-end messages are kept below 6000 wire bytes and 40 "
                 "reads so that the evaluation inside Coq stays cheap"])

# ------------------------------------------------------------------------------------------------ implementation
_IMPL = None


class _Stub:
    """decider stand-in: BoboDistributedTCP only stores it (snapshot() is used by RESYNC only)"""

    def subscribe(self, s):
        pass

    def snapshot(self):
        return [], [], []


class _FakeSock:
    def __init__(self, mod, data=b""):
        self.mod, self.data, self.closed = mod, data, False

    def settimeout(self, t):
        pass

    def connect(self, addr):
        pass

    def sendall(self, b):
        self.mod.sent.append(bytes(b))

    def send(self, b):
        self.mod.sent.append(bytes(b))
        return len(b)

    def recv(self, n):
        d, self.data = self.data, b""
        return d

    def close(self):
        self.closed = True

    def shutdown(self, *a):
        pass


class _FakeSockMod:
    """replacement for the module global `socket` of bobocep.dist.tcp while _tcp_send runs"""

    def __init__(self, real):
        self.sent = []
        self._real = real

    def socket(self, *a, **k):
        return _FakeSock(self)

    def __getattr__(self, name):
        return getattr(self._real, name)


class _Sub:
    def __init__(self):
        self.got = []

    def on_distributed_update(self, completed, halted, updated):
        self.got.append((completed, halted, updated))


class Impl:
    def __init__(self):
        import bobocep.dist.tcp as tcpmod
        from bobocep.dist.tcp import BoboDistributedTCP
        from bobocep.dist.device import BoboDevice
        from bobocep.dist.crypto.aes import BoboDistributedCryptoAES
        from bobocep.cep.event import BoboHistory, BoboEventSimple, BoboEventComplex, BoboEventAction
        from bobocep.cep.engine.decider.runserial import BoboRunSerial
        self.tcpmod, self.TCP, self.Device, self.AES = tcpmod, BoboDistributedTCP, BoboDevice, BoboDistributedCryptoAES
        self.H, self.S, self.C, self.A, self.R = BoboHistory, BoboEventSimple, BoboEventComplex, BoboEventAction, \
            BoboRunSerial
        self.keys = tuple(getattr(tcpmod, n, d) for n, d in
                          (("_KEY_COMPLETED", "completed"), ("_KEY_HALTED", "halted"), ("_KEY_UPDATED", "updated")))
        self.crypto = BoboDistributedCryptoAES("0123456789abcdef")
        self.pairs = {}
        self.header_source = "_tcp_send"
        self.delivery_undrivable = None

    def pair(self, urn, key):
        """(sender instance, receiver instance) for the sender identity (urn, key); no thread is started"""
        k = (urn, key)
        if k not in self.pairs:
            peer = "peer" if urn != "peer" else "peer2"
            devs = [self.Device("127.0.0.1", 9001, urn, key), self.Device("127.0.0.1", 9002, peer, "pk")]
            snd = self.TCP(urn, _Stub(), devs, self.crypto)
            devs2 = [self.Device("127.0.0.1", 9001, urn, key), self.Device("127.0.0.1", 9002, peer, "pk")]
            rcv = self.TCP(peer, _Stub(), devs2, self.crypto)
            sub = _Sub()
            rcv.subscribe(sub)
            if len(self.pairs) > 64:
                self.pairs.clear()
            self.pairs[k] = (snd, rcv, sub, peer)
        return self.pairs[k]

    # ---- building real objects from specs
    def event(self, e):
        k = e[0]
        if k == "S":
            return self.S(e[1], e[2], e[3])
        if k == "A":
            return self.A(e[1], e[2], e[3], e[4], e[5], e[6], e[7])
        return self.C(e[1], e[2], e[3], e[4], e[5], self.history(e[6]))

    def history(self, h):
        return self.H({g: [self.event(e) for e in es] for g, es in h})

    def record(self, r):
        return self.R(r[0], r[1], r[2], r[3], self.history(r[4]))

    # ---- reading a spec back from real objects (public properties only)
    def spec_event(self, e):
        if isinstance(e, self.C):
            return ["C", e.event_id, e.timestamp, e.data, e.phenomenon_name, e.pattern_name,
                    self.spec_history(e.history)]
        if isinstance(e, self.A):
            return ["A", e.event_id, e.timestamp, e.data, e.phenomenon_name, e.pattern_name, e.action_name, e.success]
        if isinstance(e, self.S):
            return ["S", e.event_id, e.timestamp, e.data]
        return ["?", type(e).__name__]

    def spec_history(self, h):
        ev = h.events
        return [[g, [self.spec_event(e) for e in ev[g]]] for g in ev]

    def spec_record(self, r):
        return [r.run_id, r.phenomenon_name, r.pattern_name, r.block_index, self.spec_history(r.history)]

    # ---- the real path
    def send_bytes(self, snd, peer, ty, fl, js):
        """bytes that _tcp_send hands to the socket (real header formatting and real encryption)"""
        if self.header_source == "_tcp_send":
            fake = _FakeSockMod(self.tcpmod.socket)
            old = self.tcpmod.socket
            self.tcpmod.socket = fake
            try:
                err = snd._tcp_send(snd._devices[peer], ty, fl, js)
            except (TypeError, AttributeError, KeyError) as e:   # not drivable this way: say so, use the literal
                self.header_source = "literal format (could not drive _tcp_send: %r)" % (e,)
                err = None
            finally:
                self.tcpmod.socket = old
            if err == 0 and len(fake.sent) == 1:
                return fake.sent[0]
            if err is not None:
                raise RuntimeError("_tcp_send returned %r, %d sendall calls" % (err, len(fake.sent)))
        mydev = snd._devices[snd._urn]
        return bytes(self.crypto.encrypt("{} {} {} {} {}".format(mydev.urn, mydev.id_key, ty, fl, js)))

    def transmit(self, case):
        """returns dict(sent=[3 lists of objects], js, plaintext, fields, recv=[3 lists], delivered=[3 lists]|None)"""
        urn, key, ty, fl = case["urn"], case["key"], case["type"], case["flags"]
        snd, rcv, sub, peer = self.pair(urn, key)
        sent = [[self.record(r) for r in case[k]] for k in ("completed", "halted", "updated")]
        out = dict(sent=sent)
        # what a predicate (or any other reader) does with a history between the moment the record is built and the
        # moment the outgoing thread serialises it: reads only - they must not alter what is sent
        out["spec_before_reads"] = [[self.spec_record(r) for r in l] for l in sent]
        for l in sent:
            for r in l:
                read_history(r.history, 0)
        msg = {self.keys[0]: sent[0], self.keys[1]: sent[1], self.keys[2]: sent[2]}
        out["stage"] = "send"
        js = snd._outgoing_to_json(msg)
        out["js"] = js
        b = self.send_bytes(snd, peer, ty, fl, js)
        out["nbytes"] = len(b)
        out["stage"] = "receive"
        pt = self.crypto.decrypt(b)
        out["plaintext"] = pt
        f = rcv._split_plaintext(pt)
        out["fields"] = tuple(f[:4])
        inc = rcv._incoming_from_json(f[4])
        out["recv"] = [inc[self.keys[0]], inc[self.keys[1]], inc[self.keys[2]]]
        out["stage"] = "done"
        out["delivered"] = None
        if case.get("deliver") and ty in (0, 2) and self.delivery_undrivable is None and any(sent):
            del sub.got[:]
            try:
                rcv._tcp_incoming_handle_client(_FakeSock(_FakeSockMod(None), b), "127.0.0.1", int(time.time()))
                rcv._update()
            except (TypeError, AttributeError) as e:
                self.delivery_undrivable = repr(e)
            else:
                out["delivered"] = [list(x) for x in sub.got[-1]] if sub.got else "nothing delivered"
        return out


def read_history(h, depth):
    """every read-only accessor of a history (and of the histories nested in its complex events)"""
    for g in list(h.all_groups()) + ["__no_such_group__", ""]:
        h.group(g)
    h.first(), h.last(), h.size(), h.all_events(), str(h)
    if depth < 3:
        for e in h.all_events():
            inner = getattr(e, "history", None)
            if inner is not None and hasattr(inner, "all_groups"):
                read_history(inner, depth + 1)


def impl():
    global _IMPL
    if _IMPL is None:
        _IMPL = Impl()
    return _IMPL


# ------------------------------------------------------------------------------------------------ comparison (oracle)
def fbits(x):
    return struct.unpack(">Q", struct.pack(">d", x))[0]


def canon(x):
    """type- and order-sensitive canonical text of a JSON value (1, 1.0 and True differ; -0.0 and 0.0 differ)"""
    return json.dumps(x, ensure_ascii=True, allow_nan=True)


def leaf_same(a, b):
    if type(a) is not type(b):
        return False
    if isinstance(a, float):
        return fbits(a) == fbits(b) or (a != a and b != b)
    if isinstance(a, (str, int, bool)) or a is None:
        return a == b
    try:
        return canon(a) == canon(b)
    except (TypeError, ValueError):
        return a == b


EV_FIELDS = {"S": ["kind", "event_id", "timestamp", "data"],
             "C": ["kind", "event_id", "timestamp", "data", "phenomenon_name", "pattern_name", "history"],
             "A": ["kind", "event_id", "timestamp", "data", "phenomenon_name", "pattern_name", "action_name", "success"]}


def diff_event(a, b, path):
    if a[0] != b[0]:
        return path + ".kind", "kind"
    for i, name in enumerate(EV_FIELDS.get(a[0], [])):
        if name == "history":
            d = diff_history(a[i], b[i], path + ".history")
            if d:
                return d
        elif not leaf_same(a[i], b[i]):
            return path + "." + name, name
    return None


def diff_history(a, b, path):
    ga, gb = [g for g, _ in a], [g for g, _ in b]
    if ga != gb:
        return path + ".groups", ("group-count" if len(ga) != len(gb) else
                                  "group-order" if sorted(ga) == sorted(gb) else "group-name")
    for i, ((g, ea), (_, eb)) in enumerate(zip(a, b)):
        if len(ea) != len(eb):
            return path + "[%r].len" % g, "event-count"
        ida, idb = [e[1] for e in ea], [e[1] for e in eb]
        if ida != idb and sorted(map(repr, ida)) == sorted(map(repr, idb)):
            return path + "[%r]" % g, "event-order"
        for j, (x, y) in enumerate(zip(ea, eb)):
            d = diff_event(x, y, path + "[%r][%d]" % (g, j))
            if d:
                return d
    return None


def diff_record(a, b, path):
    for i, name in enumerate(["run_id", "phenomenon_name", "pattern_name", "block_index"]):
        if not leaf_same(a[i], b[i]):
            return path + "." + name, name
    return diff_history(a[4], b[4], path + ".history")


def check_case(case):
    """Runs the case on the implementation.  Returns (failure dict | None, transmit output)."""
    im = impl()
    try:
        out = im.transmit(case)
    except Exception as e:   # the property says the state arrives: any exception on the way is a failure
        st = "build"
        try:
            st = im_last_stage(case)
        except Exception:
            pass
        return dict(signature="%s-raises:%s" % (st, type(e).__name__),
                    what="%s raised %s: %s" % (st, type(e).__name__, str(e)[:200])), None
    names = ("completed", "halted", "updated")
    for n, l0, l1 in zip(names, out["spec_before_reads"], out["sent"]):
        for i, (s0, r1) in enumerate(zip(l0, l1)):
            d = diff_record(s0, im.spec_record(r1), "%s[%d]" % (n, i))
            if d:
                return dict(signature="read-changed-the-record:" + d[1],
                            what="reading the history of %s[%d] (group / first / last / size / all_events) changed it at %s before it was sent" % (n, i, d[0])), out
    want = (case["urn"], case["key"], case["type"], case["flags"])
    if tuple(out["fields"]) != want or any(type(a) is not type(b) for a, b in zip(out["fields"], want)):
        return dict(signature="header-differs", what="header fields %r became %r" % (want, out["fields"])), out
    for which, got in (("recv", out["recv"]), ("delivered", out["delivered"])):
        if got is None:
            continue
        if isinstance(got, str):
            return dict(signature="delivery:nothing-delivered",
                        what="handle_client + _update delivered nothing to the subscriber"), out
        pre = "" if which == "recv" else "delivery:"
        for n, s, g in zip(names, out["sent"], got):
            if len(s) != len(g):
                return dict(signature=pre + "differs:list-length",
                            what="%s: %d record(s) sent, %d received" % (n, len(s), len(g))), out
            for i, (rs, rg) in enumerate(zip(s, g)):
                if not isinstance(rg, im.R):
                    return dict(signature=pre + "differs:record-type",
                                what="%s[%d] arrived as %s" % (n, i, type(rg).__name__)), out
                d = diff_record(im.spec_record(rs), im.spec_record(rg), "%s[%d]" % (n, i))
                if d:
                    return dict(signature=pre + "differs:" + d[1], what="(a) content differs at %s" % d[0]), out
                if rs.to_json_str() != rg.to_json_str():
                    return dict(signature=pre + "reserialised-text-differs",
                                what="(b) to_json_str of received %s[%d] is not the text that was sent" % (n, i)), out
    return None, out


def im_last_stage(case):
    """which stage raises (build / send / receive)"""
    im = impl()
    try:
        [[im.record(r) for r in case[k]] for k in ("completed", "halted", "updated")]
    except Exception:
        return "build"
    snd, rcv, sub, peer = im.pair(case["urn"], case["key"])
    try:
        sent = [[im.record(r) for r in case[k]] for k in ("completed", "halted", "updated")]
        js = snd._outgoing_to_json(dict(zip(im.keys, sent)))
        im.send_bytes(snd, peer, case["type"], case["flags"], js)
    except Exception:
        return "send"
    return "receive"


# ------------------------------------------------------------------------------------------------ model side
def cstr(s):
    return zs([ord(c) for c in s])


def cjson(x):
    if x is None:
        return "JNull"
    if x is True:
        return "(JBool true)"
    if x is False:
        return "(JBool false)"
    if isinstance(x, int):
        return "(JInt %s)" % zz(x)
    if isinstance(x, float):
        return "(JFloat %d)" % fbits(x)
    if isinstance(x, str):
        return "(JStr %s)" % cstr(x)
    if isinstance(x, list):
        return "(JArr [%s])" % "; ".join(cjson(v) for v in x)
    if isinstance(x, dict):
        return "(JObj [%s])" % "; ".join("(%s, %s)" % (cstr(k), cjson(v)) for k, v in x.items())
    raise TypeError("not a JSON value: %r" % (x,))


def cevent(e):
    if e[0] == "S":
        return "(Simple %s %s %s)" % (cstr(e[1]), zz(e[2]), cjson(e[3]))
    if e[0] == "A":
        return "(Action %s %s %s %s %s %s %s)" % (cstr(e[1]), zz(e[2]), cjson(e[3]), cstr(e[4]), cstr(e[5]),
                                                  cstr(e[6]), "true" if e[7] else "false")
    return "(Complex %s %s %s %s %s %s)" % (cstr(e[1]), zz(e[2]), cjson(e[3]), cstr(e[4]), cstr(e[5]), chist(e[6]))


def chist(h):
    return "[%s]" % "; ".join("(%s, [%s])" % (cstr(g), "; ".join(cevent(e) for e in es)) for g, es in h)


def crecord(r):
    return "(mkRS %s %s %s %s %s)" % (cstr(r[0]), cstr(r[1]), cstr(r[2]), zz(r[3]), chist(r[4]))


def ccase(case, specs):
    return "((%s, %s, %s, %s), ([%s], [%s], [%s]))" % (
        cstr(case["urn"]), cstr(case["key"]), zz(case["type"]), zz(case["flags"]),
        "; ".join(crecord(r) for r in specs[0]), "; ".join(crecord(r) for r in specs[1]),
        "; ".join(crecord(r) for r in specs[2]))


# the model's concrete codec (Model/Wire.v tdumps), written independently:
#   n | t | f | i<int>; | d<bits>; | s<len>;<chars> | a<len>;<items> | o<len>;(<keylen>;<key><value>)*}
def tnum(z):
    return [ord(c) for c in str(z)] + [59]


def tstr_codes(codes):
    return [115] + tnum(len(codes)) + codes


def tval(x):
    if x is None:
        return [110]
    if x is True:
        return [116]
    if x is False:
        return [102]
    if isinstance(x, int):
        return [105] + tnum(x)
    if isinstance(x, float):
        return [100] + tnum(fbits(x))
    if isinstance(x, str):
        return tstr_codes([ord(c) for c in x])
    if isinstance(x, list):
        out = [97] + tnum(len(x))
        for v in x:
            out += tval(v)
        return out
    if isinstance(x, dict):
        return tobj([(k, tval(v)) for k, v in x.items()])
    raise TypeError("unexpected value on the wire: %r" % (x,))


def tobj(entries):
    out = [111] + tnum(len(entries))
    for k, tv in entries:
        out += tnum(len(k)) + [ord(c) for c in k] + tv
    return out + [125]


# the model's key order per dictionary level; the comparison looks fields up by name, so an implementation that
# emits the same keys in another order still agrees (the order it uses is reported in the evidence)
K_SIMPLE = ["event_type", "event_id", "timestamp", "data"]
K_COMPLEX = K_SIMPLE + ["phenomenon_name", "pattern_name", "history"]
K_ACTION = K_SIMPLE + ["phenomenon_name", "pattern_name", "action_name", "success"]
K_RECORD = ["run_id", "phenomenon_name", "pattern_name", "block_index", "history"]
K_MSG = ["completed", "halted", "updated"]
T_SIMPLE, T_COMPLEX, T_ACTION = "type_simple", "type_complex", "type_action"
ORDER_SEEN = {}


def tschema(d, order, special, level):
    """d: a dict parsed from the wire; fields in the model's order first, unknown keys after, in wire order"""
    if not isinstance(d, dict):
        raise TypeError("expected a JSON object at %s level, found %r" % (level, type(d).__name__))
    ORDER_SEEN.setdefault(level, set()).add(tuple(d.keys()))
    entries = []
    for k in [k for k in order if k in d] + [k for k in d if k not in order]:
        entries.append((k, special[k](d[k]) if k in special else tval(d[k])))
    return tobj(entries)


def tnested(s, conv):
    """a JSON string holding JSON text: parse that text (one level) and re-encode it"""
    if not isinstance(s, str):
        raise TypeError("expected nested JSON text, found %r" % type(s).__name__)
    return tstr_codes(conv(json.loads(s)))


def tevent(d):
    t = d.get("event_type") if isinstance(d, dict) else None
    if t == T_COMPLEX:
        return tschema(d, K_COMPLEX, {"history": lambda s: tnested(s, thistory)}, "complex")
    if t == T_ACTION:
        return tschema(d, K_ACTION, {}, "action")
    return tschema(d, K_SIMPLE, {}, "simple")


def thistory(d):
    if not isinstance(d, dict):
        raise TypeError("history is not an object")
    ents = []
    for g, lst in d.items():
        tv = [97] + tnum(len(lst))
        for s in lst:
            tv += tnested(s, tevent)
        ents.append((g, tv))
    return tobj(ents)


def trecord(d):
    return tschema(d, K_RECORD, {"history": lambda s: tnested(s, thistory)}, "record")


def tmsg(d):
    def lst(v):
        out = [97] + tnum(len(v))
        for s in v:
            out += tnested(s, trecord)
        return out
    return tschema(d, K_MSG, {k: lst for k in K_MSG}, "message")


def expected_from_wire(plaintext, ok):
    """the model's plaintext (header + payload in the model's concrete codec), computed from the real plaintext"""
    parts = plaintext.split(" ", 4)
    if len(parts) != 5:
        raise ValueError("plaintext has fewer than four spaces")
    out = []
    for p in parts[:4]:
        out += [ord(c) for c in p] + [32]
    return out + tmsg(json.loads(parts[4])) + [-1, 1 if ok else 0, 1]


def decode_text(codes):
    tail = ""
    if -1 in codes:
        i = codes.index(-1)
        codes, t = codes[:i], codes[i + 1:]
        tail = "  [round trip in the model: %s, wf_msg: %s]" % tuple((t + ["?", "?"])[:2])
    return "".join(chr(c) if 0 <= c < 0x110000 else "<%d>" % c for c in codes) + tail


# ------------------------------------------------------------------------------------------------ generation
NAMES = ["a", "g", "", " ", "a b", "\x00", "BOBO", "x\x00BOBO", "\"", "\\", "\\\"", "\\\\", "é", "日本",
         "\U0001f600", "}", "{\"a\":1}", "\n", " ", "null", "completed", "history", "event_type", "type_simple",
         "0", "-1", "BOBO ", "'", "\x7f", "�", "\t", "%s", "{}", "[]"]
DATA_LEAVES = [None, True, False, 0, 1, -1, 2 ** 31, 2 ** 63, 2 ** 63 - 1, -2 ** 63, -2 ** 63 - 1, 2 ** 64, 10 ** 30,
               -10 ** 40, 1e308, -1e308, 1.7976931348623157e308, 5e-324, -5e-324, 2.2250738585072014e-308, -0.0, 0.0,
               1.5, 1e22, 1e16, 0.1, 1 / 3, 123456789.123456789, 1.0, 2.0 ** 53, 2.0 ** 63, 1e-7]


def gen_str(rng, nonempty=False):
    r = rng.random()
    if r < 0.6:
        s = rng.choice(NAMES)
    elif r < 0.85:
        s = rng.choice(NAMES) + rng.choice(NAMES)
    else:
        s = "".join(rng.choice(["a", "Z", " ", "\x00", "\"", "\\", "B", "O", "é", "\U0001f600", "/", "\r", "u",
                                "0"]) for _ in range(rng.randint(0, 12)))
    if nonempty and s == "":
        s = rng.choice(["e", "\x00", " ", "BOBO"])
    return s


def gen_data(rng, depth=0):
    r = rng.random()
    if r < 0.45 or depth >= 3:
        return rng.choice(DATA_LEAVES) if rng.random() < 0.6 else gen_str(rng)
    if r < 0.55:
        return rng.randint(-10 ** 20, 10 ** 20)
    if r < 0.62:
        return rng.uniform(-1e6, 1e6) * 10.0 ** rng.randint(-300, 300)
    if r < 0.8:
        return [gen_data(rng, depth + 1) for _ in range(rng.randint(0, 4))]
    d = {}
    for _ in range(rng.randint(0, 4)):
        d[gen_str(rng)] = gen_data(rng, depth + 1)
    return d


def gen_ts(rng):
    return rng.choice([0, 1, 5, -1, 1700000000, 1700000000123, 2 ** 63, -2 ** 64, rng.randint(0, 10 ** 10)])


def gen_event(rng, depth):
    """depth = how many further complex levels may be nested below this event"""
    r = rng.random()
    if depth > 0 and r < 0.45:
        return ["C", gen_str(rng, True), gen_ts(rng), gen_data(rng), gen_str(rng, True), gen_str(rng, True),
                gen_history(rng, depth - 1, allow_empty=True)]
    if r < 0.75:
        return ["S", gen_str(rng, True), gen_ts(rng), gen_data(rng)]
    return ["A", gen_str(rng, True), gen_ts(rng), gen_data(rng), gen_str(rng, True), gen_str(rng, True),
            gen_str(rng, True), rng.random() < 0.5]


def gen_history(rng, depth, allow_empty=False, big=False):
    ng = rng.choice([0, 1, 1, 2, 2, 3, 5]) if allow_empty else rng.choice([1, 1, 2, 2, 3, 5])
    if big:
        ng = rng.choice([1, 2, 40])
    h, used = [], set()
    for _ in range(ng):
        g = gen_str(rng)
        if g in used:        # a dict cannot hold the same group name twice
            continue
        used.add(g)
        n = rng.choice([1, 1, 1, 2, 3]) if not big else rng.choice([1, 60, 150])
        h.append([g, [gen_event(rng, depth if not big else 0) for _ in range(n)]])
    return h


def gen_record(rng, depth=None, big=False):
    if depth is None:
        depth = rng.choice([0, 0, 1, 1, 2, 3])
    h = gen_history(rng, depth, big=big)
    if not h:
        h = [[gen_str(rng), [gen_event(rng, depth)]]]
    return [gen_str(rng, True), gen_str(rng, True), gen_str(rng), rng.choice([1, 1, 2, 3, 7, 2 ** 40]), h]


URNS = ["u", "dev_1", "\x00", "BOBO", "u\x00BOBO", "é\U0001f600", "a\"b\\", "urn:x-1", "{}", "0", "-"]
KEYS = ["k", "key1", "k\"1", "\\", "BOBO", "\x00\x00", "日", "0123456789abcdef"]


def gen_case(rng, depth=None, big=False, nrec=None):
    lists = [[], [], []]
    n = nrec if nrec is not None else rng.choice([1, 1, 1, 2, 3, 4])
    for _ in range(n):
        lists[rng.randint(0, 2)].append(gen_record(rng, depth, big))
    return dict(urn=rng.choice(URNS), key=rng.choice(KEYS), type=rng.choice([0, 0, 2]), flags=rng.choice([0, 1]),
                completed=lists[0], halted=lists[1], updated=lists[2])


def small_shapes(level):
    """bounded-exhaustive: every history over <= 2 ordered groups drawn from 3 names, 1..2 events per group
    (level 0: second group holds one event), every event from 6 shapes (all kinds, nesting 0..3)"""
    s = ["S", "e", 1, 0]
    a = ["A", "a", 2, None, "p", "q", "act", True]
    c0 = ["C", "c0", 3, "d", "p", "q", []]
    c1 = ["C", "c1", 4, [1], "p", "q", [["g", [s]]]]
    c2 = ["C", "c2", 5, {"k": 1.5}, "p", "q", [["", [c1, a]]]]
    c3 = ["C", "c3", 6, None, "p", "q", [["x\x00BOBO \"\\", [c2]], ["g", [c0]]]]
    evs = [s, a, c0, c1, c2, c3]
    names = ["g", "", "BOBO\x00 \"\\é"]
    one = [[e] for e in evs]
    two = [[e, f] for e in evs for f in evs]
    for g in names:
        for es in one + two:
            yield [[g, es]]
    for g1 in names:
        for g2 in names:
            if g1 == g2:
                continue
            for es1 in (one + two if level else one):
                for es2 in (one + two if level else one):
                    yield [[g1, es1], [g2, es2]]


def list_shapes():
    """every way to put 0..2 copies of a record into the three lists (not all empty)"""
    for a in range(3):
        for b in range(3):
            for c in range(3):
                if a + b + c:
                    yield a, b, c


def has_escape(x):
    if isinstance(x, str):
        return any(c in "\"\\" or ord(c) < 32 or ord(c) > 126 for c in x)
    if isinstance(x, list):
        return any(has_escape(v) for v in x)
    if isinstance(x, dict):
        return any(has_escape(k) or has_escape(v) for k, v in x.items())
    return False


def case_records(case):
    return case["completed"] + case["halted"] + case["updated"]


def depth_event(e):
    if e[0] != "C":
        return 0
    return 1 + max([depth_event(x) for _, es in e[6] for x in es] or [0])


def depth_record(r):
    return max([depth_event(x) for _, es in r[4] for x in es] or [0])


def n_events(h):
    return sum(len(es) + sum(n_events(e[6]) for e in es if e[0] == "C") for _, es in h)


def nontrivial(case):
    return any(depth_record(r) > 0 for r in case_records(case)) or has_escape([case_records(case)])


# ------------------------------------------------------------------------------------------------ shrinking
def shrink(case, sig, budget=400):
    """greedy: drop records, groups, events; blank data; shorten strings -- keep while the same signature fails"""
    def fails(c):
        try:
            f, _ = check_case(c)
        except Exception:
            return False
        return f is not None and f["signature"] == sig

    def variants(c):
        for k in ("completed", "halted", "updated"):
            for i in range(len(c[k])):
                d = json_copy(c)
                del d[k][i]
                yield d
        for k in ("completed", "halted", "updated"):
            for i in range(len(c[k])):
                for v in hist_variants(c[k][i][4]):
                    d = json_copy(c)
                    d[k][i][4] = v
                    yield d
                for j in (0, 1, 2):
                    if len(c[k][i][j]) > 1:
                        d = json_copy(c)
                        d[k][i][j] = c[k][i][j][:1]
                        yield d
        for fld, val in (("urn", "u"), ("key", "k"), ("type", 0), ("flags", 0)):
            if c[fld] != val:
                d = json_copy(c)
                d[fld] = val
                yield d

    def hist_variants(h):
        for gi in range(len(h)):
            if len(h) > 1:
                yield h[:gi] + h[gi + 1:]
            g, es = h[gi]
            for ei in range(len(es)):
                if len(es) > 1:
                    yield h[:gi] + [[g, es[:ei] + es[ei + 1:]]] + h[gi + 1:]
                e = es[ei]
                for e2 in event_variants(e):
                    yield h[:gi] + [[g, es[:ei] + [e2] + es[ei + 1:]]] + h[gi + 1:]
            if len(g) > 1:
                yield h[:gi] + [[g[:1], es]] + h[gi + 1:]

    def event_variants(e):
        if e[0] == "C":
            for _, es in e[6]:
                for x in es:
                    yield x                       # replace the complex event by one of its children
            yield ["S", e[1], e[2], e[3]]
            for v in hist_variants(e[6]):
                yield e[:6] + [v]
            if e[6]:
                yield e[:6] + [[]]
        if e[0] == "A":
            yield ["S", e[1], e[2], e[3]]
        if e[3] is not None:
            yield e[:3] + [None] + e[4:]
            if isinstance(e[3], (list, dict)) and len(e[3]) > 1:
                items = list(e[3].items()) if isinstance(e[3], dict) else list(e[3])
                for i in range(len(items)):
                    rest = items[:i] + items[i + 1:]
                    yield e[:3] + [dict(rest) if isinstance(e[3], dict) else rest] + e[4:]
            if isinstance(e[3], str) and len(e[3]) > 1:
                yield e[:3] + [e[3][:len(e[3]) // 2]] + e[4:]
                yield e[:3] + [e[3][len(e[3]) // 2:]] + e[4:]
        if e[2] != 0:
            yield e[:2] + [0] + e[3:]
        if len(e[1]) > 1:
            yield [e[0], e[1][:1]] + e[2:]

    cur, used = case, 0
    progress = True
    while progress and used < budget:
        progress = False
        for v in variants(cur):
            used += 1
            if used >= budget:
                break
            if fails(v):
                cur, progress = v, True
                break
    return cur


def json_copy(c):
    return json.loads(json.dumps(c))


def case_size(case):
    try:
        return len(json.dumps(case))
    except (TypeError, ValueError):
        return 10 ** 9


# ------------------------------------------------------------------------------------------------ end to end
# Properties/C09e2e.v: Wire + Crypto + Recv + Auth composed (Model/Pipeline.v send_receive).  The same
# (message, cut, clock) through the real sender and the real receiver, with the model's toy cipher injected.
E2E_RCV_URN, E2E_RCV_KEY = "rcv", "rk"
E2E_THIRD = ("dev3", "k3", "10.0.0.3")
E2E_ACCEPTED = 1000
E2E_MAX_BYTES = 6000
E2E_CONFIGS = [  # (aes key, nonce_length, mac_length)
    ("0123456789abcdef", 16, 16), ("k" * 16, 8, 4), ("A1b2C3d4E5f6G7h8I9j0K1l2", 12, 16),
    ("0123456789abcdef0123456789ABCDEF", 16, 8), ("z" * 16, 32, 12), ("q" * 24, 9, 5)]
E2E_BAD_CONFIGS = [("k" * 16, 16, 3), ("k" * 16, 16, 17), ("\xe9" * 16, 16, 16), ("k" * 16, 0, 16)]


def _e2e_mods():
    import stepped_tcp as S
    import pC17 as P17
    return S, P17


def sum1(b):
    a = 0
    for x in b:
        a = (a + x) % 65521
    return a


def sum2(b):
    a = 0
    for i, x in enumerate(b, 1):
        a = (a + i * x) % 65521
    return a


# the model's own codec (Wire.msg_to_str tdumps) computed from specs read off real objects
def s_event(e):
    ents = [("event_type", tval({"S": T_SIMPLE, "C": T_COMPLEX, "A": T_ACTION}[e[0]])), ("event_id", tval(e[1])),
            ("timestamp", tval(e[2])), ("data", tval(e[3]))]
    if e[0] == "C":
        ents += [("phenomenon_name", tval(e[4])), ("pattern_name", tval(e[5])), ("history", tstr_codes(s_hist(e[6])))]
    elif e[0] == "A":
        ents += [("phenomenon_name", tval(e[4])), ("pattern_name", tval(e[5])), ("action_name", tval(e[6])),
                 ("success", tval(e[7]))]
    return tobj(ents)


def s_hist(h):
    ents = []
    for g, es in h:
        tv = [97] + tnum(len(es))
        for e in es:
            tv += tstr_codes(s_event(e))
        ents.append((g, tv))
    return tobj(ents)


def s_record(r):
    return tobj([("run_id", tval(r[0])), ("phenomenon_name", tval(r[1])), ("pattern_name", tval(r[2])),
                 ("block_index", tval(r[3])), ("history", tstr_codes(s_hist(r[4])))])


def s_msg(lists):
    ents = []
    for k, l in zip(K_MSG, lists):
        tv = [97] + tnum(len(l))
        for r in l:
            tv += tstr_codes(s_record(r))
        ents.append((k, tv))
    return tobj(ents)


def floats_in(x, acc):
    if isinstance(x, float):
        acc[fbits(x)] = float.__repr__(x)
    elif isinstance(x, list):
        for v in x:
            floats_in(v, acc)
    elif isinstance(x, dict):
        for v in x.values():
            floats_in(v, acc)


def float_table(lists):
    acc = {}

    def ev(e):
        floats_in(e[3], acc)
        if e[0] == "C":
            for _, es in e[6]:
                for x in es:
                    ev(x)
    for l in lists:
        for r in l:
            for _, es in r[4]:
                for e in es:
                    ev(e)
    return sorted(acc.items())


def e2e_peers_pre(variant, urn, key, addr):
    """receiver's view of its peers before the message: [(urn, key, addr, last_comms, last_attempt, flag_reset,
    stash sizes)] in device order (sender, receiver itself, a third device)"""
    if variant == 0:
        return [(urn, key, "10.0.0.1", 0, 0, True, (0, 0, 0)), (E2E_RCV_URN, E2E_RCV_KEY, "10.0.0.2", 0, 0, True, (0, 0, 0)),
                E2E_THIRD + (0, 0, True, (0, 0, 0))]
    if variant == 1:
        return [(urn, key, addr, 950, 960, False, (1, 0, 2)), (E2E_RCV_URN, E2E_RCV_KEY, "10.0.0.2", 7, 0, True, (0, 0, 0)),
                E2E_THIRD + (50, 60, False, (0, 2, 0))]
    return [(urn, key, "10.0.0.1", 999, 5, True, (0, 1, 0)), (E2E_RCV_URN, E2E_RCV_KEY, "10.0.0.2", 0, 0, False, (0, 0, 0)),
            E2E_THIRD + (0, 990, True, (3, 0, 0))]


def e2e_send(ec):
    """the real sender: returns (bytes handed to sendall | None when encrypt raised, sent objects, note)"""
    S, P17 = _e2e_mods()
    im = impl()
    c = ec["msg"]
    lists = [c["completed"], c["halted"], c["updated"]]
    objs = [[im.record(r) for r in l] for l in lists]
    devs = [im.Device("10.0.0.1", 9001, c["urn"], c["key"]), im.Device("10.0.0.2", 9002, E2E_RCV_URN, E2E_RCV_KEY)]
    dec = S.StubDecider(snapshot=objs)
    cr = im.AES(ec["akey"], ec["n"], ec["m"])
    dist, _ = S.make_stepped(devices=devs, me=0, crypto=cr, decider=dec, flag_reset=bool(c["flags"] & 1))
    clock = S.FakeClock(start=float(E2E_ACCEPTED))
    down = [False]
    net = S.FakeNet(clock=clock, on_connect=lambda sock, addr: ConnectionRefusedError("link down") if down[0] else None)
    d = dist._devices[E2E_RCV_URN]
    rec = []
    outage = int(ec.get("outage") or 0) if c["type"] == 0 and any(objs) else 0
    with S.installed(net, clock), P17.scripted_rng(list(ec["draw"])), P17.patched_new(P17.toy_new(rec)):
        dist.mark_running()
        if c["type"] == 0:
            d.last_comms = E2E_ACCEPTED              # SYNC period: the queued update is sent
            try:
                if outage:
                    # an earlier change got through (the peer's backlog has been used and emptied once); then the link
                    # to the peer goes down (the peer's own messages still arrive: it stays in the SYNC period)
                    dist.on_decider_update([], [], [S.make_run_serial(77)], True)
                    dist.outgoing_iterations(1)
                    down[0] = True
                    dist.on_decider_update(objs[0], objs[1], objs[2], True)
                    for _ in range(outage):          # the lists go to the backlog; retried, still down
                        dist.outgoing_iterations(1)
                        clock.advance(60)
                        d.last_comms = int(clock.time())
                    down[0] = False
                    d.flag_reset = bool(c["flags"] & 1)
                else:
                    dist.on_decider_update(objs[0], objs[1], objs[2], True)
            except ValueError as e:
                return None, objs, "encrypt raised %s" % type(e).__name__
        else:
            d.last_comms = 0                         # RESYNC period: the decider's snapshot is sent
        try:
            dist.outgoing_iterations(1)
        except ValueError as e:                      # AES.new rejected the configuration
            return None, objs, "encrypt raised %s" % type(e).__name__
    if len(net.sent) != (2 if outage else 1):
        raise RuntimeError("sender issued %d sendall calls%s" % (len(net.sent), " (one before and one after an outage of %d "
                           "failed attempts expected)" % outage if outage else ""))
    if outage:
        return net.sent[-1][1], objs, None
    if not rec:
        raise RuntimeError("encrypt did not go through Crypto.Cipher.AES.new")
    return net.sent[0][1], objs, None


class _E2EClock:
    """scripted int(time.time()) readings; the last reading is held (an implementation that looks at the clock
    more often than once per read is not penalised), for at most 64 further calls (no endless loop)"""

    def __init__(self, readings):
        self.readings, self.extra, self.calls, self.log, self.now = list(readings), 0, 0, [], 0.0

    def time(self):
        self.calls += 1
        if len(self.readings) > 1:
            self.now = self.readings.pop(0)
        else:
            self.extra += 1
            if self.extra > 64 or not self.readings:
                import stepped_tcp as S
                raise S.ScriptExhausted("clock read %d times" % self.calls)
            self.now = self.readings[0]
        self.log.append(self.now)
        return self.now

    def sleep(self, dt):
        pass

    def advance(self, dt):
        pass


def e2e_receive(ec, data):
    """the real receiver on a scripted socket and clock.  Returns dict(peers, queue, delivered, exc, log)."""
    S, P17 = _e2e_mods()
    im = impl()
    c = ec["msg"]
    pre = e2e_peers_pre(ec["pre"], c["urn"], c["key"], ec["addr"])
    devs = [im.Device(a, 9001 + i, u, k) for i, (u, k, a, _, _, _, _) in enumerate(pre)]
    cr = im.AES(ec["akey"], ec["n"], ec["m"])
    dist, dec = S.make_stepped(devices=devs, me=1, crypto=cr, timeout_receive=ec["trecv"], recv_bytes=ec["nrecv"],
                               max_size_incoming=ec["qmax"])
    for (u, _, _, lc, la, fr, st) in pre:
        dm = dist._devices[u]
        dm.last_comms, dm.last_attempt, dm.flag_reset = lc, la, fr
        dm.append_stash(completed=[S.make_run_serial(i) for i in range(st[0])],
                        halted=[S.make_run_serial(10 + i) for i in range(st[1])],
                        updated=[S.make_run_serial(20 + i) for i in range(st[2])])
    script, pos = [], 0
    for k in ec["spec"]:
        if k == 0:
            script.append(S.CLOSED)
        elif k < 0:
            script.append(S.TIMEOUT)
        else:
            script.append(data[pos:pos + k])
            pos += k
    clock = _E2EClock(ec["clock"][1:])
    client = S.ScriptedClient(script)
    exc = exc2 = None
    with S.installed(None, clock), P17.patched_new(P17.toy_new([])):
        try:
            dist.handle_client(client, ec["addr"], ec["clock"][0])
        except BaseException as e:   # noqa: B902  (harness conditions are BaseException)
            if isinstance(e, (KeyboardInterrupt, SystemExit)):
                raise
            exc = e
        ps = dist.peer_state()
        peers = []
        for u in dist._devices:
            p = ps[u]
            peers += [ord(ch) for ch in p["addr"]] + [-1, p["last_comms"], p["last_attempt"], int(p["flag_reset"])]
            peers += list(p["stash"]) + [-2]
        queue = [[list(it.get(k, [])) for k in im.keys] if isinstance(it, dict) else it for it in dist.incoming_items()]
        try:
            dist.dispatch()
        except Exception as e:
            exc2 = e
    return dict(peers=peers, peer_state=ps, queue=queue, delivered=[list(map(list, u)) for u in dec.updates],
                exc=exc, exc2=exc2, nrecv=client.recv_calls)


def e2e_vector(data, r):
    im = impl()

    def enc(item):
        return s_msg([[im.spec_record(x) for x in lst] for lst in item])
    out = [1, len(data), sum1(data), sum2(data)] + r["peers"] + [-3]
    for it in r["queue"]:
        out += enc(it) + [-4]
    out += [-5]
    for it in r["delivered"]:
        out += enc(it) + [-4]
    return out


def e2e_coq_input(ec, specs):
    c = ec["msg"]
    pre = e2e_peers_pre(ec["pre"], c["urn"], c["key"], ec["addr"])
    peers = "[%s]" % "; ".join("((%s, %s, %s), (%d, %d, %s, %s))" % (cstr(u), cstr(k), cstr(a), lc, la,
                                                                      "true" if fr else "false", zs(list(st)))
                               for (u, k, a, lc, la, fr, st) in pre)
    ft = "[%s]" % "; ".join("(%d, %s)" % (b, cstr(t)) for b, t in float_table(specs))
    m = "([%s], [%s], [%s])" % tuple("; ".join(crecord(r) for r in l) for l in specs)
    return "((((%s, (%s, %s)), (%d, %d, %d)), (%s, %d), %s), ((%s, %s, %s), (%s, %s), %s), ((%s, %s), %s))" % (
        cstr(ec["akey"]), zz(ec["n"]), zz(ec["m"]), ec["trecv"], ec["nrecv"], ec["fuel"], peers, ec["qmax"],
        cstr(ec["addr"]), zs(list(ec["draw"])), cstr(c["urn"]), cstr(c["key"]), zz(c["type"]), zz(c["flags"]), m,
        zs(ec["spec"]), zs(ec["clock"]), ft)


def e2e_boundaries(ec, n):
    """stream offsets after every recv that returns bytes (recv(k) re-splits what is available)"""
    out, pos = [], 0
    for k in ec["spec"]:
        if k <= 0:
            continue
        k = min(k, n - pos)
        while k > 0:
            step = min(k, ec["nrecv"])
            pos += step
            k -= step
            out.append(pos)
    return out


def e2e_premises(ec, data):
    """which premises of C09e2e_delivery hold for this case (the theorem speaks about exactly these)"""
    n = len(data)
    b = e2e_boundaries(ec, n)
    minlen = 16 + ec["n"] + ec["m"] + 4
    whole = bool(b) and b[-1] == n
    premature = any(p < n and p >= minlen and data[p - 4:p] == b"BOBO" for p in b)
    reads = len([p for p in b if p <= n])
    rd = ec["clock"][1:1 + reads]
    timely = len(rd) == reads and all(t - ec["clock"][0] < ec["trecv"] for t in rd)
    return dict(whole=whole, no_premature=not premature, timely=timely, reads=reads)


def e2e_oracle(ec, data, objs, r, prem):
    """the property itself on the implementation (no model): under the theorem's premises the receiver delivers
    exactly what was sent, updates the sender's address / contact times, and changes nothing else"""
    im = impl()
    c = ec["msg"]
    if not (prem["whole"] and prem["no_premature"] and prem["timely"]):
        return None
    if r["exc"] is not None:
        tn = type(r["exc"]).__name__
        if tn in ("ScriptExhausted", "BlockedForever"):
            return dict(signature="e2e:not-delivered:still-reading-after-whole-message",
                        what="all %d bytes were read in %d timely reads and the loop went on reading (%s)"
                             % (len(data), prem["reads"], tn))
        if tn == "BoboDistributedTimeoutError":
            return dict(signature="e2e:not-delivered:timeout", what="whole message read in time, then: %s" % str(r["exc"])[:120])
        return dict(signature="e2e:receiver-raises:%s" % tn,
                    what="handle_client raised %s: %s" % (tn, str(r["exc"])[:160]))
    if r["exc2"] is not None:
        return dict(signature="e2e:update-raises:%s" % type(r["exc2"]).__name__,
                    what="_update raised %s: %s" % (type(r["exc2"]).__name__, str(r["exc2"])[:160]))
    if len(r["queue"]) != 1:
        return dict(signature="e2e:queue-entries", what="%d entries in the incoming queue, expected 1" % len(r["queue"]))
    want_calls = 1 if any(objs) else 0
    if len(r["delivered"]) != want_calls:
        return dict(signature="e2e:delivery-count", what="%d on_distributed_update calls, expected %d"
                    % (len(r["delivered"]), want_calls))
    for which, got in [("queue", r["queue"][0])] + [("delivered", x) for x in r["delivered"]]:
        for nme, s_, g_ in zip(("completed", "halted", "updated"), objs, got):
            if len(s_) != len(g_):
                return dict(signature="e2e:differs:list-length", what="%s %s: %d sent, %d received"
                            % (which, nme, len(s_), len(g_)))
            for i, (rs, rg) in enumerate(zip(s_, g_)):
                if not isinstance(rg, im.R):
                    return dict(signature="e2e:differs:record-type", what="%s[%d] arrived as %s" % (nme, i, type(rg).__name__))
                d = diff_record(im.spec_record(rs), im.spec_record(rg), "%s[%d]" % (nme, i))
                if d:
                    return dict(signature="e2e:differs:" + d[1], what="%s: content differs at %s" % (which, d[0]))
                if rs.to_json_str() != rg.to_json_str():
                    return dict(signature="e2e:reserialised-text-differs", what="%s %s[%d]" % (which, nme, i))
    pre = e2e_peers_pre(ec["pre"], c["urn"], c["key"], ec["addr"])
    for (u, _, a, lc, la, fr, st) in pre:
        p = r["peer_state"][u]
        if u == c["urn"]:
            exp = dict(addr=ec["addr"], last_comms=0 if c["flags"] & 1 else lc, last_attempt=0 if c["flags"] & 1 else la,
                       flag_reset=fr, stash=tuple(st))
        else:
            exp = dict(addr=a, last_comms=lc, last_attempt=la, flag_reset=fr, stash=tuple(st))
        if p != exp:
            return dict(signature="e2e:peer-state:%s" % ("sender" if u == c["urn"] else "other"),
                        what="peer %r is %r, expected %r" % (u, p, exp))
    return None


def e2e_cuts(rng, n, nrecv, trecv, quick):
    """(spec, clock, kind) list for a stream of n bytes"""
    a = E2E_ACCEPTED

    def timely(reads, extra=2):
        t, out = a, []
        for _ in range(reads + extra):
            out.append(t)
            if rng.random() < 0.2 and t - a < trecv - 1:
                t += 1
        return [a] + out

    def reads_of(spec):
        return sum((min(k, n) + nrecv - 1) // nrecv for k in spec if k > 0)
    cuts = []
    cuts.append(([n], "whole"))
    p = rng.randint(1, n - 1)
    cuts.append(([p, n - p], "two-way"))
    p, q = sorted(rng.sample(range(1, n), 2))
    cuts.append(([p, q - p, n - q], "three-way"))
    short = rng.randint(1, min(20, n - 1))
    cuts.append(([n - short, short], "last-read-short"))
    k = rng.choice([1, 7, 16, 50, nrecv])
    k = max(k, (n + 39) // 40)                     # at most ~40 reads
    cuts.append(([min(k, n - i) for i in range(0, n, k)], "uniform-%s" % ("nrecv" if k == nrecv else "small")))
    pts = sorted(rng.sample(range(1, n), min(n - 1, rng.randint(3, 9))))
    cuts.append(([y - x for x, y in zip([0] + pts, pts + [n])], "random"))
    out = []
    pick = cuts if not quick else [cuts[0]] + rng.sample(cuts[1:], 2)
    for spec, kind in pick:
        if any(k > nrecv for k in spec):
            kind += "+oversize-item"
        out.append((spec, timely(reads_of(spec)), kind))
    # outside the premises: truncated then closed / silent, late clock
    if rng.random() < (0.25 if quick else 0.5):
        t = rng.randint(1, n - 1)
        if rng.random() < 0.5:
            out.append(([t, 0, 0, 0], [a, a, a + 1, a + trecv - 1, a + trecv, a + trecv], "truncated-closed"))
        else:
            out.append(([t, -1], [a, a, a + 1, a + 2], "truncated-silent"))
    if rng.random() < (0.1 if quick else 0.3):
        p = rng.randint(1, n - 1)
        out.append(([p, n - p], [a, a, a + trecv, a + trecv], "late-second-read"))
    # a stream that keeps arriving in full-size reads, one second apart, past the deadline (measured from accept):
    # given up, nothing applied
    if n > nrecv * (trecv + 1) and rng.random() < (0.5 if quick else 0.8):
        spec = [min(nrecv, n - i) for i in range(0, n, nrecv)]
        out.append((spec, [a] + [a + i for i in range(len(spec) + 2)], "slow-stream-past-deadline"))
    return out


def e2e_message_cases(ctx):
    """messages for the end-to-end check: small shapes, list placements, edges, seeded random (small texts)"""
    rng = ctx.rng
    out = []
    shapes = list(small_shapes(0))
    for h in rng.sample(shapes, 10 if ctx.quick else 60):
        out.append(dict(urn="u", key="k", type=rng.choice([0, 2]), flags=rng.choice([0, 1]), completed=[], halted=[],
                        updated=[["r\x00", "p", "", 2, h]]))
    rec = ["r", "ph", "pa", 1, [["", [["S", "e", 1, {"completed": ["BOBO", 1.5, -0.0, 1e22]}]]]]]
    rec2 = ["r2", "ph", "", 3, [["g", [["C", "c", 2, None, "p", "q", [["", [["A", "a", 3, 1.5, "p", "q", "x", False]]]]]]]]]
    for i, (a, b, c) in enumerate(list_shapes()):
        if ctx.quick and i % 3:
            continue
        out.append(dict(urn="u\x00BOBO", key="k\"", type=2 if i % 2 else 0, flags=i % 2, completed=[rec, rec2][:a],
                        halted=[rec2, rec][:b], updated=[rec, rec][:c]))
    out.append(dict(urn="u", key="k", type=0, flags=0, completed=[], halted=[], updated=[]))
    out.append(dict(urn="\xe9\U0001f600", key="日", type=2, flags=1, completed=[], halted=[], updated=[]))
    want = 45 if ctx.quick else 330
    tries = 0
    while len(out) < want + 30 and tries < 20 * want:
        tries += 1
        c = gen_case(rng)
        try:
            if len(json.dumps(c)) > 1500 or max([depth_record(r) for r in case_records(c)] or [0]) > 2:
                continue
        except (TypeError, ValueError):
            continue
        out.append(c)
    return out


def e2e_public(ec):
    return dict(e2e=True, **{k: (list(v) if isinstance(v, (bytes, tuple)) else v) for k, v in ec.items()})


def surrogate_half(ctx, res, failures):
    """implementation only (the model's strings are Unicode text; a str holding half of a surrogate pair is not, yet
    json round-trips it and the library's validator accepts it): records whose identifiers / data carry a lone high
    surrogate go through the real sender, the wire and the real receiver and arrive unchanged"""
    import copy
    rng = ctx.rng
    n = 0
    msgs = [m for m in e2e_message_cases(ctx) if m["type"] == 0 and any(m[k] for k in ("completed", "halted", "updated"))][:6]
    for i, c in enumerate(msgs):
        c = copy.deepcopy(c)
        for k in ("completed", "halted", "updated"):
            for rec in c[k]:
                rec[0] = rec[0] + "caf\u00e9 \ud83d"
                if i % 2:
                    rec[1] = "\ud83d" + rec[1]
        akey, nn, mm = E2E_CONFIGS[i % len(E2E_CONFIGS)]
        base = dict(akey=akey, n=nn, m=mm, trecv=3, nrecv=2048, fuel=8, qmax=0, pre=0, addr="10.9.9.9",
                    draw=[rng.randrange(256) for _ in range(max(nn, 0))],
                    msg={k: c[k] for k in ("urn", "key", "type", "flags", "completed", "halted", "updated")})
        case = e2e_public(dict(base, spec=[], clock=[E2E_ACCEPTED], surrogate=True))
        try:
            data, objs, note = e2e_send(base)
        except Exception as e:
            failures.append(dict(signature="e2e:sender-raises:%s" % type(e).__name__, case=case, detail=None,
                                     what="record with half of a surrogate pair in its identifiers: the real sender path raised "
                                          "%s: %s" % (type(e).__name__, ascii(str(e))[:160])))
            return n
        if data is None:         # (a valid cipher configuration: the ValueError did not come from AES.new)
            failures.append(dict(signature="e2e:sender-raises:ValueError", case=case, detail=None,
                                 what="record with half of a surrogate pair in its identifiers: the real sender path gave up (%s); "
                                      "the outgoing thread of the real component ends there" % note))
            return n
        base["nrecv"] = max(2048, len(data))
        ec = dict(base, spec=[len(data)], clock=[E2E_ACCEPTED, E2E_ACCEPTED, E2E_ACCEPTED], surrogate=True)
        r = e2e_receive(ec, data)
        prem = e2e_premises(ec, data)
        n += 1
        res.note_case(("e2e-surrogate", i), True)
        f = e2e_oracle(ec, data, objs, r, prem)
        if f is not None:
            failures.append(dict(f, case=e2e_public(ec), detail=None))
            return n
    return n


def e2e(ctx, res):
    rng = ctx.rng
    im = impl()
    t0 = time.time()
    coq_cases, metas, failures = [], [], []
    addrs = ["10.9.9.9", "10.0.0.1", "fe80::1", "h\xf6st"]
    n_msgs = 0
    prem_all = prem_out = 0
    msgs = e2e_message_cases(ctx)
    bad = [(cfg, msgs[i % len(msgs)]) for i, cfg in enumerate(E2E_BAD_CONFIGS)]
    plan = [(E2E_CONFIGS[i % len(E2E_CONFIGS)], c) for i, c in enumerate(msgs)] + bad
    for (akey, n, m), c in plan:
        nrecv = rng.choice([2048, 2048, 64, 100, 333])
        trecv = rng.choice([3, 3, 5, 2])
        if len(coq_cases) >= (260 if ctx.quick else 1500):
            break
        base = dict(akey=akey, n=n, m=m, trecv=trecv, nrecv=nrecv, fuel=8, qmax=rng.choice([0, 0, 0, 4]),
                    pre=rng.choice([0, 1, 2]), addr=rng.choice(addrs), draw=[rng.randrange(256) for _ in range(max(n, 0))],
                    msg={k: c[k] for k in ("urn", "key", "type", "flags", "completed", "halted", "updated")})
        if c["type"] == 0 and any(c[k] for k in ("completed", "halted", "updated")) and len(coq_cases) % 3 == 1:
            base["outage"] = 1 + len(coq_cases) % 2      # the lists wait in the peer's backlog through an outage first
            res.count("e2e_sent_from_backlog_after_outage")
        try:
            data, objs, note = e2e_send(base)
        except Exception as e:
            failures.append(dict(signature="e2e:sender-raises:%s" % type(e).__name__,
                                 what="real sender path raised %s: %s" % (type(e).__name__, str(e)[:160]),
                                 case=e2e_public(dict(base, spec=[], clock=[E2E_ACCEPTED])), detail=None))
            continue
        if data is not None and len(data) > E2E_MAX_BYTES:      # keeps the evaluation inside Coq cheap
            res.count("e2e_skipped_large_message")
            continue
        n_msgs += 1
        if data is not None:
            base["nrecv"] = nrecv = max(nrecv, (len(data) + 39) // 40)   # at most 40 reads for the whole stream
        specs = [[im.spec_record(x) for x in lst] for lst in objs]
        if data is None:
            ec = dict(base, spec=[1], clock=[E2E_ACCEPTED, E2E_ACCEPTED])
            coq_cases.append((e2e_coq_input(ec, specs), [0]))
            metas.append((ec, "encrypt-raises"))
            res.count("e2e_encrypt_raises")
            res.note_case(("e2e", len(coq_cases)), False)
            continue
        for spec, clock, kind in e2e_cuts(rng, len(data), nrecv, trecv, ctx.quick):
            ec = dict(base, spec=spec, clock=clock)
            r = e2e_receive(ec, data)
            prem = e2e_premises(ec, data)
            inside = prem["whole"] and prem["no_premature"] and prem["timely"]
            prem_all += 1
            prem_out += 0 if inside else 1
            res.count("e2e_cut_%s" % kind)
            res.count("e2e_type_%d_flags_%d" % (c["type"], c["flags"]))
            if prem["whole"] and not prem["no_premature"]:
                res.count("e2e_premature_marker_at_read_boundary_D7")
            res.note_case(("e2e", len(coq_cases)), prem["reads"] > 1)
            f = e2e_oracle(ec, data, objs, r, prem)
            if f is not None:
                failures.append(dict(f, case=e2e_public(ec), detail=None))
            try:
                vec = e2e_vector(data, r)
            except Exception as e:
                res.mismatches.append(dict(case=e2e_public(ec), impl="received objects cannot be read back: %r" % (e,),
                                           model=None))
                continue
            coq_cases.append((e2e_coq_input(ec, specs), vec))
            metas.append((ec, kind))
    res.extra["e2e_messages_through_real_sender"] = n_msgs
    res.extra["e2e_cases"] = len(coq_cases)
    res.extra["e2e_cases_inside_theorem_premises"] = prem_all - prem_out
    res.extra["e2e_cases_outside_premises_still_compared"] = prem_out
    if coq_cases:
        shard = max(4, (len(coq_cases) + common.NPROC - 1) // common.NPROC)
        mism, errs = common.coq_run_cases("C09e2e", "Model.Wire Model.Pipeline", "run_C09e2e", "e2e_input", coq_cases, shard=shard)
        res.errors += errs
        res.traces_validated += len(coq_cases) - len(mism)
        for i, model_out in mism[:6]:
            res.mismatches.append(dict(case=e2e_public(metas[i][0]), impl=e2e_show(coq_cases[i][1]),
                                       model=e2e_show(model_out)))
        if len(mism) > 6:
            res.mismatches += [dict(case=None, impl=None, model=None)] * (len(mism) - 6)
        res.extra["e2e_disagreements"] = len(mism)
    res.extra["e2e_seconds"] = round(time.time() - t0, 1)
    return failures


def e2e_show(vec):
    """readable form of a run_C09e2e output vector"""
    if not vec or vec[0] != 1:
        return "encrypt raised (no bytes)" if vec == [0] else repr(vec[:40])
    head = "bytes=%d sums=%d,%d" % tuple(vec[1:4])
    rest = vec[4:]
    try:
        i, j = rest.index(-3), rest.index(-5)
    except ValueError:
        return head + " " + repr(rest[:60])
    peers, cur = [], []
    for x in rest[:i]:
        if x == -2:
            peers.append(cur)
            cur = []
        else:
            cur.append(x)
    ptxt = []
    for p in peers:
        k = p.index(-1) if -1 in p else len(p)
        ptxt.append("%s%r" % ("".join(chr(ch) for ch in p[:k]), p[k + 1:]))

    def msgs(xs):
        out, cur = [], []
        for x in xs:
            if x == -4:
                out.append("".join(chr(ch) if 0 <= ch < 0x110000 else "<%d>" % ch for ch in cur))
                cur = []
            else:
                cur.append(x)
        return out
    return "%s peers=%s queue=%s delivered=%s" % (head, ptxt, msgs(rest[i + 1:j]), msgs(rest[j + 1:]))


def e2e_replay(case):
    ec = {k: v for k, v in case.items() if k != "e2e"}
    im = impl()
    if ec.get("surrogate"):          # implementation only: half of a surrogate pair is outside the model's strings
        try:
            data, objs, note = e2e_send(ec)
        except Exception as e:
            print("FAILS: the real sender raised %s: %s" % (type(e).__name__, ascii(str(e))[:200]))
            return 1
        print("message :", ascii(json.dumps(ec["msg"]))[:1500])
        if data is None:
            print("FAILS: the real sender path gave up: %s" % note)
            return 1
        if not ec.get("spec"):
            ec = dict(ec, nrecv=max(2048, len(data)), spec=[len(data)], clock=[E2E_ACCEPTED] * 3)
        r = e2e_receive(ec, data)
        fail = e2e_oracle(ec, data, objs, r, e2e_premises(ec, data))
        print("FAILS: [%s] %s" % (fail["signature"], fail["what"]) if fail else
              "records carrying a lone high surrogate arrive unchanged through sender, wire and receiver")
        return 1 if fail else 0
    data, objs, note = e2e_send(ec)
    specs = [[im.spec_record(x) for x in lst] for lst in objs]
    print("message :", json.dumps(ec["msg"])[:2000])
    print("link    : key=%r nonce=%d mac=%d recv_bytes=%d timeout_receive=%d addr=%r pre-state %d"
          % (ec["akey"], ec["n"], ec["m"], ec["nrecv"], ec["trecv"], ec["addr"], ec["pre"]))
    print("cut     : spec=%r clock=%r" % (ec["spec"], ec["clock"]))
    if ec.get("outage"):
        print("sender  : an earlier change was delivered; link down, the lists wait in the backlog over %d failed attempts; "
              "link up, this is the message then sent" % ec["outage"])
    if data is None:
        vec, fail = [0], None
        print("impl    : %s" % note)
    else:
        r = e2e_receive(ec, data)
        prem = e2e_premises(ec, data)
        vec = e2e_vector(data, r)
        fail = e2e_oracle(ec, data, objs, r, prem)
        print("premises:", prem)
        print("impl    :", e2e_show(vec)[:3000], "| exception: %r" % (r["exc"],) if r["exc"] is not None else "")
    model, log = common.coq_eval("C09e2e", "Model.Wire Model.Pipeline", "run_C09e2e %s" % e2e_coq_input(ec, specs))
    print("model   :", e2e_show(model)[:3000] if model is not None else log[-1500:])
    rc = 0
    if model is not None and model != vec:
        print("model and implementation differ")
        rc = 1
    if fail is not None:
        print("FAILS: [%s] %s" % (fail["signature"], fail["what"]))
        rc = 1
    if rc == 0:
        print("the message arrives unchanged through sender, wire, receive loop and authentication; model agrees")
    return rc


# ------------------------------------------------------------------------------------------------ run
def wire_key_obligation(res):
    """the dictionary keys and type tags on the real wire are the model's (as sets per level)"""
    im = impl()
    s = im.S("e", 1, None)
    a = im.A("a", 1, None, "p", "q", "x", True)
    c = im.C("c", 1, None, "p", "q", im.H({"g": [s]}))
    r = im.R("r", "p", "q", 1, im.H({"g": [s]}))
    obs = dict(simple=json.loads(s.to_json_str()), action=json.loads(a.to_json_str()),
               complex=json.loads(c.to_json_str()), record=json.loads(r.to_json_str()))
    exp = dict(simple=K_SIMPLE, action=K_ACTION, complex=K_COMPLEX, record=K_RECORD)
    log = []
    for k in exp:
        if sorted(obs[k]) != sorted(exp[k]):
            log.append("%s: implementation emits keys %r, model has %r" % (k, list(obs[k]), exp[k]))
    for k, t in (("simple", T_SIMPLE), ("action", T_ACTION), ("complex", T_COMPLEX)):
        if obs[k].get("event_type") != t:
            log.append("%s: event_type is %r, model has %r" % (k, obs[k].get("event_type"), t))
    if list(im.keys) != K_MSG:
        log.append("message keys %r, model has %r" % (im.keys, K_MSG))
    res.gen_obligations.append(("wire-keys: the implementation's dictionary keys and type tags are the model's",
                                not log, "\n".join(log)))
    # the harness' constants are the model's constants
    names = [("k_event_type", "event_type"), ("k_event_id", "event_id"), ("k_timestamp", "timestamp"),
             ("k_data", "data"), ("k_phenomenon_name", "phenomenon_name"), ("k_pattern_name", "pattern_name"),
             ("k_history", "history"), ("k_action_name", "action_name"), ("k_success", "success"),
             ("k_run_id", "run_id"), ("k_block_index", "block_index"), ("k_completed", "completed"),
             ("k_halted", "halted"), ("k_updated", "updated"), ("t_simple", T_SIMPLE), ("t_complex", T_COMPLEX),
             ("t_action", T_ACTION)]
    import os
    os.makedirs(common.GEN, exist_ok=True)
    with open(os.path.join(common.GEN, "Facts_C09.v"), "w") as f:
        f.write("From Bobo Require Import Base.Prelude Model.Wire.\n")
        f.write("(* regenerated: the key names / type tags the harness reads off the wire are the model's *)\n")
        f.write("Example wire_constants :\n  [%s]\n  = [%s].\nProof. reflexivity. Qed.\n"
                % ("; ".join(n for n, _ in names), ";\n     ".join(cstr(v) for _, v in names)))
    ok, out = common.coqc("Gen/Facts_C09.v")
    res.gen_obligations.append(("Gen/Facts_C09.v:wire_constants", ok, out))


def probes(res):
    """values that are not JSON: what happens to them is counted, never reported"""
    im = impl()
    tally = {}
    for name, data in (("nan", float("nan")), ("inf", float("inf")), ("-inf", float("-inf")),
                       ("tuple", (1, 2)), ("int-key", {1: "a"}), ("lone-surrogate", "\ud800"),
                       ("surrogate-in-key", {"\udfff": 1}), ("int-5000-digits", 10 ** 5000)):
        spec = ["r", "p", "q", 1, [["g", [["S", "e", 1, data]]]]]
        try:
            snd, rcv, sub, peer = im.pair("u", "k")
            r = im.record(spec)
            js = snd._outgoing_to_json(dict(zip(im.keys, ([r], [], []))))
            b = im.send_bytes(snd, peer, 0, 0, js)
            inc = rcv._incoming_from_json(rcv._split_plaintext(im.crypto.decrypt(b))[4])
            r2 = inc[im.keys[0]][0]
            d2 = r2.history.events["g"][0].data
            same = leaf_same(data, d2) if isinstance(data, float) else (type(d2) is type(data) and d2 == data)
            tally[name] = "identical" if same else "changed to %s %s" % (type(d2).__name__, canon(d2)[:40])
        except Exception as e:
            tally[name] = "raises %s" % type(e).__name__
    res.extra["out_of_scope_probes"] = tally


def run(ctx, res):
    rng = ctx.rng
    im = impl()
    t0 = time.time()
    wire_key_obligation(res)
    probes(res)

    cases = []     # (case, origin)
    # 1. bounded-exhaustive small shapes
    for h in small_shapes(0 if ctx.quick else 1):
        cases.append((dict(urn="u", key="k", type=0, flags=1, completed=[], halted=[],
                           updated=[["r\x00", "p", "", 2, h]]), "shape"))
    rec = ["r", "ph", "pa", 1, [["", [["S", "e", 1, {"completed": ["BOBO"]}]]]]]
    rec2 = ["r2", "ph", "", 3, [["g", [["C", "c", 2, None, "p", "q", [["", [["A", "a", 3, 1.5, "p", "q", "x", False]]]]]]]]]
    for a, b, c in list_shapes():
        cases.append((dict(urn="u\x00BOBO", key="k\"", type=2, flags=0, completed=[rec, rec2][:a],
                           halted=[rec2, rec][:b], updated=[rec, rec][:c]), "lists"))
    n_exh = len(cases)
    # 2. hand-picked edges
    big_int_data = ["S", "e", 2 ** 63, [2 ** 63, -2 ** 63 - 1, 10 ** 400, 1e308, -0.0, 5e-324, 1e22]]
    deep = ["S", "leaf", 0, "x"]
    for d in range(3):
        deep = ["C", "c%d" % d, d, None, "p", "q", [["\"\\", [deep]]]]
    cases.append((dict(urn="u", key="k", type=0, flags=0, completed=[["r", "p", "q", 1, [["g", [big_int_data]]]]],
                       halted=[], updated=[["r2", "p", "q", 4, [["", [deep]]]]]), "edge"))
    cases.append((dict(urn="u", key="k", type=0, flags=0, completed=[], halted=[],
                       updated=[["r", "p", "q", 1, [["g", [["C", "c", 1, None, "p", "q", []]]]]]]), "edge"))
    cases.append((dict(urn="u", key="k", type=0, flags=0, completed=[], halted=[], updated=[]), "edge"))
    cases.append((dict(urn="u", key="k", type=0, flags=0, completed=[], halted=[],
                       updated=[["r", "p", "q", 1, [["g", [["S", "e", 1, "x" * 20000]]],
                                                    ["h", [["S", "e%d" % i, i, i] for i in range(1500)]]]]]), "edge"))
    # 3. seeded random, until the tier's number of records is reached
    target = 3000 if ctx.quick else 110000
    nrec = sum(len(case_records(c)) for c, _ in cases)
    k = 0
    while nrec < target:
        k += 1
        big = (k % 97 == 0)
        c = gen_case(rng, big=big)
        cases.append((c, "big" if big else "random"))
        nrec += len(case_records(c))

    coq_cases, coq_index = [], []
    max_coq = 420 if ctx.quick else 1600
    failures = []
    n_records = 0
    sizes = []
    for idx, (case, origin) in enumerate(cases):
        case["deliver"] = ctx.quick or idx % 4 == 0 or origin != "random"
        fail, out = check_case(case)
        recs = case_records(case)
        n_records += len(recs)
        res.note_case(("c", idx, origin), nontrivial(case))
        res.count("origin_%s" % origin)
        res.count("records_per_message_%d" % min(len(recs), 5))
        for r in recs:
            res.count("depth_%d" % depth_record(r))
            res.count("groups_%s" % ("1" if len(r[4]) == 1 else "2-3" if len(r[4]) <= 3 else "4+"))
            ne = n_events(r[4])
            res.count("events_%s" % ("1" if ne == 1 else "2-5" if ne <= 5 else "6-50" if ne <= 50 else "51+"))
            if any(g == "" for g, _ in r[4]):
                res.count("has_empty_group_name")
        if fail is not None:
            fail = dict(fail, case={k: v for k, v in case.items() if k != "deliver"}, detail=None)
            failures.append(fail)
            continue
        sizes.append(len(out["js"]))
        if out["delivered"] is not None:
            res.count("delivered_through_handle_client")
        # model comparison on the smaller cases (terms stay small), spread over all origins
        if len(coq_cases) < max_coq and len(out["js"]) <= 6000 and (origin != "shape" or idx % (2 if ctx.quick else 9) == 0):
            specs = [[im.spec_record(r) for r in lst] for lst in out["sent"]]
            try:
                exp = expected_from_wire(out["plaintext"], True)
            except Exception as e:
                res.mismatches.append(dict(case=case, impl="wire text could not be parsed level by level: %r" % (e,),
                                           model=None))
                continue
            coq_cases.append((ccase(case, specs), exp))
            coq_index.append(idx)

    res.extra["records_checked"] = n_records
    res.extra["messages_checked"] = len(cases)
    res.extra["wire_json_chars_max"] = max(sizes) if sizes else 0
    res.extra["header_source"] = im.header_source
    if im.delivery_undrivable:
        res.extra["delivery_path_undrivable"] = im.delivery_undrivable
    res.extra["exhaustive_scope"] = ("all histories over <= 2 ordered groups from 3 names x 1..2 events per group%s x 6 "
                                     "event shapes (all kinds, nesting 0..3): %d messages; all 26 placements of 0..2 "
                                     "records in the three lists" % (" (second group: 1 event)" if ctx.quick else "",
                                                                     n_exh - 26))
    res.exhaustive = True
    res.extra["key_order_on_wire"] = {lvl: [list(o) for o in sorted(v)][:3] for lvl, v in ORDER_SEEN.items()}
    res.extra["key_order_same_as_model"] = all(
        v == {tuple(m)} for v, m in ((ORDER_SEEN.get("simple"), K_SIMPLE), (ORDER_SEEN.get("complex"), K_COMPLEX),
                                     (ORDER_SEEN.get("action"), K_ACTION), (ORDER_SEEN.get("record"), K_RECORD),
                                     (ORDER_SEEN.get("message"), K_MSG)) if v is not None)
    # growth of the wire text with nesting depth (observation, not a finding)
    g = ["S", "e", 1, "x"]
    growth = []
    for d in range(6):
        growth.append(len(im.event(g).to_json_str()))
        g = ["C", "c", 1, None, "p", "q", [["g", [g]]]]
    res.extra["event_text_chars_by_nesting_depth"] = growth

    # correspondence
    if coq_cases:
        shard = max(10, (len(coq_cases) + common.NPROC - 1) // common.NPROC)
        mism, errs = common.coq_run_cases("C09", "Model.Wire", "run_C09", "((str * str * Z * Z) * msg)", coq_cases,
                                          shard=shard)
        res.errors += errs
        res.traces_validated = len(coq_cases) - len(mism)
        for i, model_out in mism[:10]:
            case = cases[coq_index[i]][0]
            res.mismatches.append(dict(case={k: v for k, v in case.items() if k != "deliver"},
                                       impl=decode_text(coq_cases[i][1]), model=decode_text(model_out)))
        if len(mism) > 10:
            res.mismatches += [dict(case=None, impl=None, model=None)] * (len(mism) - 10)
    # validity predicate vs the real constructors
    wf_cases(ctx, res)
    # end to end: real sender, any cut, real receiver vs send_receive in Coq
    failures += e2e(ctx, res)
    res.extra["e2e_records_with_a_lone_surrogate"] = surrogate_half(ctx, res, failures)

    # failures: smallest first, shrunk
    failures.sort(key=lambda f: case_size(f["case"]))
    seen = {}
    for f in failures:
        seen.setdefault(f["signature"], f)
    out = []
    for sig, f in seen.items():
        if f["case"].get("e2e"):        # end-to-end cases (another shape) are reported as found, smallest first
            out.append(f)
            continue
        small = shrink(f["case"], sig)
        f2, _ = check_case(dict(small))
        if f2 is not None and f2["signature"] == sig:
            f = dict(f2, case={k: v for k, v in small.items() if k != "deliver"}, detail=None)
        out.append(f)
    out.sort(key=lambda f: case_size(f["case"]))
    rest = [f for f in failures if all(f is not s for s in seen.values())]
    res.failures = out + rest[:200]
    res.extra["failing_cases_total"] = len(failures)
    res.samples = [dict(case={k: v for k, v in c.items() if k != "deliver"}, origin=o)
                   for c, o in (cases[0], cases[n_exh - 1], cases[n_exh], cases[min(len(cases) - 1, n_exh + 9)])]
    res.samples = [s for s in res.samples if case_size(s["case"]) < 4000][:4]
    res.extra["oracle_seconds"] = round(time.time() - t0, 1)


def wf_cases(ctx, res):
    """wf_rserial (the theorems' premise) says exactly what the real constructors say"""
    rng = ctx.rng
    im = impl()

    def maybe_empty(s):
        return "" if rng.random() < 0.03 else s

    def ev(depth):
        r = rng.random()
        if depth > 0 and r < 0.4:
            n = rng.choice([0, 1, 2])
            h = [["g%d" % i, [ev(depth - 1) for _ in range(rng.choice([0, 1, 2]))]] for i in range(n)]
            return ["C", maybe_empty("c"), 1, None, maybe_empty("p"), maybe_empty("q"), h]
        if r < 0.7:
            return ["S", maybe_empty("e"), 2, 1]
        return ["A", maybe_empty("a"), 3, None, maybe_empty("p"), maybe_empty("q"), maybe_empty("x"), True]

    def norm_h(h):   # what the BoboHistory constructor keeps of a dict: groups that received an event
        return [[g, [norm_e(e) for e in es]] for g, es in h if es]

    def norm_e(e):
        return e[:6] + [norm_h(e[6])] if e[0] == "C" else e

    coq, meta = [], []
    n = 250 if ctx.quick else 1500
    for _ in range(n):
        ng = rng.choice([0, 1, 1, 1, 2, 2, 3])
        h = [["h%d" % i, [ev(2) for _ in range(rng.choice([0, 1, 1, 1, 2, 2]))]] for i in range(ng)]
        spec = [maybe_empty("r"), maybe_empty("p"), maybe_empty("q"), rng.choice([1, 1, 1, 2, 3, 1, 2, 5, 0, -1]), h]
        try:
            obj = im.record(spec)
            accepted = True
            term = crecord(im.spec_record(obj))
        except Exception as e:
            if not type(e).__name__.startswith("Bobo"):
                raise
            accepted = False
            term = crecord(spec[:4] + [norm_h(h)])
        res.count("wf_accepted" if accepted else "wf_rejected")
        res.note_case(("wf", term), not accepted)
        coq.append((term, [1 if accepted else 0]))
        meta.append((spec, accepted))
    mism, errs = common.coq_run_cases("C09wf", "Model.Wire", "run_C09_wf", "rserial", coq, shard=max(10, (n + 15) // 16))
    res.errors += errs
    res.traces_validated += len(coq) - len(mism)
    for i, model_out in mism[:10]:
        res.mismatches.append(dict(case=dict(wf_record=meta[i][0]), impl="constructors %s it" %
                                   ("accept" if meta[i][1] else "reject"), model="wf_rserial = %r" % (model_out,)))


# ------------------------------------------------------------------------------------------------ replay
def replay(obj):
    case = obj.get("case") or {}
    if "wf_record" in case:
        im = impl()
        try:
            im.record(case["wf_record"])
            print("implementation: constructors accept the record")
        except Exception as e:
            print("implementation: constructors reject the record: %s: %s" % (type(e).__name__, e))
        return 0
    if case.get("e2e"):
        return e2e_replay(case)
    if "updated" not in case:
        print(json.dumps(obj, indent=1)[:4000])
        return 0
    case = dict(case, deliver=True)
    fail, out = check_case(case)
    im = impl()
    print("sent    :", json.dumps({k: case[k] for k in ("urn", "key", "type", "flags", "completed", "halted", "updated")})[:3000])
    if out is not None:
        print("wire    :", (out.get("plaintext") or out.get("js") or "")[:3000])
        if "recv" in out:
            print("received:", json.dumps([[im.spec_record(r) for r in lst] for lst in out["recv"]], default=repr)[:3000])
    if fail is None and out is not None:
        try:
            specs = [[im.spec_record(r) for r in lst] for lst in out["sent"]]
            exp = expected_from_wire(out["plaintext"], True)
            model, log = common.coq_eval("C09", "Model.Wire", "run_C09 %s" % ccase(case, specs))
            print("model   :", decode_text(model or [])[:3000] if model is not None else log[-1500:])
            print("impl (in the model's codec):", decode_text(exp)[:3000])
            if model is not None and model != exp:
                print("model and implementation differ")
                return 1
        except Exception as e:
            print("model comparison not possible: %r" % (e,))
    if fail is not None:
        print("FAILS: [%s] %s" % (fail["signature"], fail["what"]))
        return 1
    print("the state arrives unchanged and re-serialises to the same text")
    return 0
