"""C13 A singleton pattern never has two active runs."""
import common
import gen_patterns as G
import predlang as PL
import ref_oracle as RO
import sim_decider as SD
import pC12
from par import pmap

PROP = "C13"
PROPERTY_FILES = ["Properties/C13.v"]
META = dict(
    level_text="Theorems (Coq): for every configuration with unique names, after every history of local events and "
               "ARBITRARY remote messages (any records, ids, duplicates, orders) a singleton pattern has at most one "
               "active run (invariant proved for local_step and for the remote path, fixed and pinned variants); and if "
               "the active run finishes on an event the first block accepts, the new run is active after that very step. "
               "Tie: model vs real decider on mixed local/remote sequences with singleton patterns, compared after "
               "every operation; oracle counts runs_from() after every step and checks the restart.",
    level_note="Trusted: Coq kernel; harness mirrors. The interleaving of the decider's callers is serialised by the "
               "decider lock: every interleaving is a sequence of atomic local/remote operations, which is what the "
               "theorem quantifies over.",
    rule="(messages may carry several updated records for one singleton pattern with different ids, as a backlog merge produces) singleton patterns (all legal shapes <=3 blocks + random up to 5 blocks), interleavings of local events and "
         "remote completed/halted/updated records with same or different run ids, duplicates; non-trivial = a remote "
         "record hit a pattern with an active run, or a run was refused by the gate",
    trusted_base=["harness/predlang.py, sim_decider.py encoders"],
    assumptions=["decider operations are atomic (decider RLock)"])


def gen_cases(ctx):
    rng = ctx.rng
    cases = []
    for shape in G.shapes(3):
        for scheme in (0, 1):
            cfg = dict(phen=[(1, [G.pattern(1, G.assign(shape, scheme, "distinct"), (), (), True)])],
                       maxcache=rng.choice([0, 10]), idbase=1000)
            for _ in range(8 if ctx.quick else 60):
                cases.append((cfg, G.rand_ops(rng, cfg, rng.randint(2, 7), premote=0.4, multi_single=True)))
    for _ in range(1200 if ctx.quick else 20000):
        cfg = G.rand_config(rng, maxblocks=5)
        for _ph, ps in cfg["phen"]:
            for p in ps:
                if rng.random() < 0.7:
                    p["single"] = True
        if rng.random() < 0.3:       # some predicates raise on some events (the run must stay as it was, C14)
            G.add_raises(rng, cfg)
        if rng.random() < 0.25:      # some notifications are refused by a later subscriber (the caller carries on)
            cfg = dict(cfg, refuse=sorted(rng.sample(range(12), 2)))
        cases.append((cfg, G.rand_ops(rng, cfg, rng.randint(3, 10 if ctx.quick else 25), premote=0.4, multi_single=True)))
    return cases


def work(case):
    cfg, ops = case
    dec, rec = SD.make_decider(cfg)
    out, fail, nontrivial = [], None, False
    singles = [(ph, p) for ph, ps in cfg["phen"] for p in ps if p["single"]]
    for k, op in enumerate(ops):
        before = {(ph, p["name"]): [r.run_id for r in dec.runs_from(PL.phname(ph), PL.patname(p["name"]))]
                  for ph, p in singles}
        remembered = set()
        if op[0] == "remote":
            c0, h0, _ = dec.snapshot()
            remembered = {r.run_id for r in c0} | {r.run_id for r in h0}
        dec.verif_boom.armed = k in cfg.get("refuse", ())      # a later subscriber refuses this notification
        o, lists = SD.apply_op(dec, rec, op)
        out += o
        if lists is None:
            if op[0] == "remote" and fail is None:
                fail = SD.remote_raise_failure(dec, k)
            break
        if op[0] == "remote" and fail is None:
            # a run the peer reports as active (not finished by the same message, not remembered as finished here)
            # must leave the singleton pattern with exactly one active run: the new run starts as soon as the old
            # one has completed or halted, also when both arrive in one message
            fin_ids = {str(r["id"]) for kk in ("comp", "halt") for r in op[1][kk]}
            for ph, p in singles:
                live = [r for r in op[1]["upd"] if r["ph"] == ph and r["pat"] == p["name"]
                        and str(r["id"]) not in fin_ids and str(r["id"]) not in remembered]
                if live and len(dec.runs_from(PL.phname(ph), PL.patname(p["name"]))) != 1:
                    fail = dict(signature="singleton-remote-run-not-started", step=k,
                                what="a message reports run %s of singleton pattern %s as active, but afterwards the instance holds "
                                     "%d runs of it" % (live[0]["id"], PL.patname(p["name"]),
                                                        len(dec.runs_from(PL.phname(ph), PL.patname(p["name"])))), detail=None)
        for ph, p in singles:
            runs = dec.runs_from(PL.phname(ph), PL.patname(p["name"]))
            dead = [r for r in runs if r.is_halted() or r.is_complete()]
            if dead and fail is None:
                # "a new run can start as soon as the current one has completed or halted": a finished run that still
                # occupies the pattern's slot keeps every later run out
                fail = dict(signature="finished-run-occupies-singleton-slot", step=k,
                            what="run %s of singleton pattern %s has %s but is still held as the pattern's active run"
                                 % (dead[0].run_id, PL.patname(p["name"]), "halted" if dead[0].is_halted() else "completed"),
                            detail=None)
            if len(runs) > 1 and fail is None:
                fail = dict(signature="two-active-singleton-runs", step=k,
                            what="singleton pattern %s has %d active runs" % (PL.patname(p["name"]), len(runs)),
                            detail=[r.run_id for r in runs])
            if before[(ph, p["name"])]:
                nontrivial = True
            if op[0] == "local" and before[(ph, p["name"])] and fail is None and len(p["blocks"]) > 1:
                comp, halt, upd = lists
                finished = [r.run_id for r in comp + halt]
                if before[(ph, p["name"])][0] in finished:
                    e = RO.FakeE(op[1])
                    acc = False
                    for q in p["blocks"][0]["preds"]:
                        try:
                            if PL.ev_eval(q, e, RO.H([])):
                                acc = True
                                break
                        except PL.PredRaise:
                            pass
                    if acc and len(runs) != 1:
                        fail = dict(signature="singleton-restart-missed", step=k,
                                    what="the active run finished on an event the first block accepts, but no new run started",
                                    detail=None)
    if fail is None:
        fail = pC12.finished_stays_out(case)
    return out, nontrivial, fail


def run(ctx, res):
    cases = gen_cases(ctx)
    results = pmap(work, cases)
    coq_cases = []
    for (cfg, ops), (out, nontrivial, fail) in zip(cases, results):
        res.note_case((PL.config_coq(cfg), repr(ops)), nontrivial)
        res.count("ops_%d" % min(len(ops), 20))
        coq_cases.append((SD.case_coq(cfg, ops), out))
        if fail:
            res.failures.append(dict(signature=fail["signature"], what=fail["what"],
                                     case=dict(cfg=cfg, ops=ops[:fail["step"] + 1]), detail=fail["detail"]))
    res.failures.sort(key=lambda f: len(repr(f["case"])))
    res.samples = [dict(cfg=cases[0][0], ops=cases[0][1])]
    mism, errs = common.coq_run_cases("C13", SD.IMPORTS, "run_decider", "(cdesc * list dop)", coq_cases, shard=150)
    res.errors += errs
    res.traces_validated = len(coq_cases) - len(mism)
    for idx, model_out in mism[:10]:
        res.mismatches.append(dict(case=dict(cfg=cases[idx][0], ops=cases[idx][1]), impl=coq_cases[idx][1], model=model_out))


def replay(obj):
    case = obj.get("case") or (obj.get("mismatches") or [{}])[0].get("case")
    if not case:
        print(obj)
        return 0
    cfg, ops = pC12.norm_case(case)
    out, _, fail = work((cfg, ops))
    model, _ = common.coq_eval("C13r", SD.IMPORTS, "run_decider %s" % SD.case_coq(cfg, ops))
    print("implementation:", out)
    print("model         :", model)
    print("oracle        :", fail or "never more than one active run")
    return 1 if (fail or model != out) else 0
