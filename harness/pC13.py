"""C13 A singleton pattern never has two active runs."""
import common
import gen_patterns as G
import predlang as PL
import ref_oracle as RO
import sim_decider as SD
import pC12
from par import pmap

PROP = "C13"
PROPERTY_FILES = ["Properties/C13.v", "Properties/C13finish.v"]
META = dict(
    level_text="Theorems (Coq): for every configuration with unique names, after every history of local events and "
               "ARBITRARY remote messages (any records, ids, duplicates, orders) a singleton pattern has at most one "
               "active run (invariant proved for local_step and for the remote path, fixed and pinned variants); and if "
               "the active run finishes on an event the first block accepts, the new run is active after that very step. "
               "Tie: model vs real decider on mixed local/remote sequences with singleton patterns, compared after "
               "every operation; oracle counts runs_from() after every step and checks the restart.",
    level_note="Trusted: Coq kernel; harness mirrors. The interleaving of the decider's callers is serialised by the "
               "decider lock: every interleaving is a sequence of atomic local/remote operations, which is what the "
               "theorem quantifies over.",
    rule="(messages may carry several updated records for one singleton pattern with different ids, as a backlog merge produces) singleton patterns (all legal shapes <=3 blocks + random up to 5 blocks), interleavings of local events and "
         "remote completed/halted/updated records with same or different run ids, duplicates; non-trivial = a remote "
         "record hit a pattern with an active run, or a run was refused by the gate",
    trusted_base=["harness/predlang.py, sim_decider.py encoders"],
    assumptions=["decider operations are atomic (decider RLock)"])


def gen_cases(ctx):
    rng = ctx.rng
    cases = []
    for shape in G.shapes(3):
        for scheme in (0, 1):
            cfg = dict(phen=[(1, [G.pattern(1, G.assign(shape, scheme, "distinct"), (), (), True)])],
                       maxcache=rng.choice([0, 10]), idbase=1000)
            for _ in range(8 if ctx.quick else 60):
                cases.append((cfg, G.rand_ops(rng, cfg, rng.randint(2, 7), premote=0.4, multi_single=True)))
    for _ in range(1200 if ctx.quick else 20000):
        cfg = G.rand_config(rng, maxblocks=5)
        for _ph, ps in cfg["phen"]:
            for p in ps:
                if rng.random() < 0.7:
                    p["single"] = True
        if rng.random() < 0.3:       # some predicates raise on some events (the run must stay as it was, C14)
            G.add_raises(rng, cfg)
        if rng.random() < 0.25:      # some notifications are refused by a later subscriber (the caller carries on)
            cfg = dict(cfg, refuse=sorted(rng.sample(range(12), 2)))
        cases.append((cfg, G.rand_ops(rng, cfg, rng.randint(3, 10 if ctx.quick else 25), premote=0.4, multi_single=True)))
    return cases


def work(case):
    cfg, ops = case
    dec, rec = SD.make_decider(cfg)
    out, fail, nontrivial = [], None, False
    singles = [(ph, p) for ph, ps in cfg["phen"] for p in ps if p["single"]]
    for k, op in enumerate(ops):
        before = {(ph, p["name"]): [r.run_id for r in dec.runs_from(PL.phname(ph), PL.patname(p["name"]))]
                  for ph, p in singles}
        remembered = set()
        if op[0] == "remote":
            c0, h0, _ = dec.snapshot()
            remembered = {r.run_id for r in c0} | {r.run_id for r in h0}
        dec.verif_boom.armed = k in cfg.get("refuse", ())      # a later subscriber refuses this notification
        o, lists = SD.apply_op(dec, rec, op)
        out += o
        if lists is None:
            if op[0] == "remote" and fail is None:
                fail = SD.remote_raise_failure(dec, k)
            break
        if op[0] == "remote" and fail is None:
            # a run the peer reports as active (not finished by the same message, not remembered as finished here)
            # must leave the singleton pattern with exactly one active run: the new run starts as soon as the old
            # one has completed or halted, also when both arrive in one message
            fin_ids = {str(r["id"]) for kk in ("comp", "halt") for r in op[1][kk]}
            for ph, p in singles:
                live = [r for r in op[1]["upd"] if r["ph"] == ph and r["pat"] == p["name"]
                        and str(r["id"]) not in fin_ids and str(r["id"]) not in remembered]
                if live and len(dec.runs_from(PL.phname(ph), PL.patname(p["name"]))) != 1:
                    fail = dict(signature="singleton-remote-run-not-started", step=k,
                                what="a message reports run %s of singleton pattern %s as active, but afterwards the instance holds "
                                     "%d runs of it" % (live[0]["id"], PL.patname(p["name"]),
                                                        len(dec.runs_from(PL.phname(ph), PL.patname(p["name"])))), detail=None)
        if op[0] == "remote" and fail is None:
            # the pattern's one logical run has completed or halted on a peer (a record this instance does not remember
            # as finished, under the peer's identifier or this one's, at whatever position the peer's copy stood): the
            # local copy goes, whatever its own position - otherwise the slot stays occupied and nothing can start
            upd_ids = {str(r["id"]) for r in op[1]["upd"]}
            for ph, p in singles:
                fin = [r for kk in ("comp", "halt") for r in op[1][kk]
                       if r["ph"] == ph and r["pat"] == p["name"] and str(r["id"]) not in remembered]
                now_ids = [r.run_id for r in dec.runs_from(PL.phname(ph), PL.patname(p["name"]))]
                kept = [i for i in before[(ph, p["name"])] if i in now_ids and i not in upd_ids]
                if fin and kept and fail is None:
                    fail = dict(signature="singleton-run-survives-remote-finish", step=k,
                                what="a message reports the run of singleton pattern %s as finished (record %s at block %s), but "
                                     "the local copy %s is still active afterwards: no new run can start"
                                     % (PL.patname(p["name"]), fin[0]["id"], fin[0]["idx"], kept[0]), detail=None)
        for ph, p in singles:
            runs = dec.runs_from(PL.phname(ph), PL.patname(p["name"]))
            dead = [r for r in runs if r.is_halted() or r.is_complete()]
            if dead and fail is None:
                # "a new run can start as soon as the current one has completed or halted": a finished run that still
                # occupies the pattern's slot keeps every later run out
                fail = dict(signature="finished-run-occupies-singleton-slot", step=k,
                            what="run %s of singleton pattern %s has %s but is still held as the pattern's active run"
                                 % (dead[0].run_id, PL.patname(p["name"]), "halted" if dead[0].is_halted() else "completed"),
                            detail=None)
            if len(runs) > 1 and fail is None:
                fail = dict(signature="two-active-singleton-runs", step=k,
                            what="singleton pattern %s has %d active runs" % (PL.patname(p["name"]), len(runs)),
                            detail=[r.run_id for r in runs])
            if before[(ph, p["name"])]:
                nontrivial = True
            if op[0] == "local" and before[(ph, p["name"])] and fail is None and len(p["blocks"]) > 1:
                comp, halt, upd = lists
                finished = [r.run_id for r in comp + halt]
                if before[(ph, p["name"])][0] in finished:
                    e = RO.FakeE(op[1])
                    acc = False
                    for q in p["blocks"][0]["preds"]:
                        try:
                            if PL.ev_eval(q, e, RO.H([])):
                                acc = True
                                break
                        except PL.PredRaise:
                            pass
                    if acc and len(runs) != 1:
                        fail = dict(signature="singleton-restart-missed", step=k,
                                    what="the active run finished on an event the first block accepts, but no new run started",
                                    detail=None)
    if fail is None:
        fail = pC12.finished_stays_out(case)
    return out, nontrivial, fail


def atomic_cases():
    """a singleton pattern; a local event and a peer's record arrive at the same moment on two threads"""
    ev = lambda i, d: (i, i, 0, d, 0, 0)        # noqa: E731
    out = []
    for shape, single_first in ((["R", "R"], 1), (["R", "R", "R"], 1), (["R", "RL", "R"], 1)):
        p = G.pattern(1, G.assign(shape, 0, "distinct"), (), (), True)
        cfg = dict(phen=[(1, [p])], maxcache=50, idbase=1000)
        g1 = p["blocks"][0]["group"]
        remote_new = dict(id=2000, ph=1, pat=1, idx=1, hist=[(g1, [ev(900, 1)])])
        starts = ("local", ev(0, 1))
        for prefix, a, b in (([], starts, ("remote", dict(comp=[], halt=[], upd=[remote_new]))),
                             ([], ("remote", dict(comp=[], halt=[], upd=[remote_new])), starts),
                             ([starts], ("local", ev(1, 2)), ("remote", dict(comp=[], halt=[dict(remote_new, id=1000, hist=[(g1, [ev(0, 1)])])], upd=[]))),
                             ([starts], ("remote", dict(comp=[], halt=[dict(remote_new, id=1000, hist=[(g1, [ev(0, 1)])])], upd=[remote_new])), ("local", ev(1, 1)))):
            out.append((cfg, prefix, a, b))
    return out


def atomic_half(res):
    n = 0
    for ci, (cfg, prefix, a, b) in enumerate(atomic_cases()):
        for k in range(1, 400):
            reached, got, serial, excs = SD.atomic_pair(cfg, prefix, a, b, k)
            if not reached:
                break
            n += 1
            if excs or got not in serial:
                res.failures.append(dict(
                    signature="decider-operations-not-atomic",
                    what="singleton pattern: a %s operation started when a %s operation was at line %d of decider.py: notifications "
                         "and final state are those of neither order of the two operations%s" % (b[0], a[0], k, "; raised %r" % excs if excs else ""),
                    case=dict(atomic=ci, line=k), detail=dict(got=repr(got)[:600], serial=repr(serial)[:1200])))
                break
        res.note_case(("atomic", ci), True)
    res.extra["two_caller_interleavings_of_decider_operations"] = n


def run(ctx, res):
    atomic_half(res)
    cases = gen_cases(ctx)
    results = pmap(work, cases)
    coq_cases = []
    for (cfg, ops), (out, nontrivial, fail) in zip(cases, results):
        res.note_case((PL.config_coq(cfg), repr(ops)), nontrivial)
        res.count("ops_%d" % min(len(ops), 20))
        coq_cases.append((SD.case_coq(cfg, ops), out))
        if fail:
            res.failures.append(dict(signature=fail["signature"], what=fail["what"],
                                     case=dict(cfg=cfg, ops=ops[:fail["step"] + 1]), detail=fail["detail"]))
    res.failures.sort(key=lambda f: len(repr(f["case"])))
    res.samples = [dict(cfg=cases[0][0], ops=cases[0][1])]
    mism, errs = common.coq_run_cases("C13", SD.IMPORTS, "run_decider", "(cdesc * list dop)", coq_cases, shard=150)
    res.errors += errs
    res.traces_validated = len(coq_cases) - len(mism)
    for idx, model_out in mism[:10]:
        res.mismatches.append(dict(case=dict(cfg=cases[idx][0], ops=cases[idx][1]), impl=coq_cases[idx][1], model=model_out))


def replay(obj):
    case = obj.get("case") or (obj.get("mismatches") or [{}])[0].get("case")
    if not case:
        print(obj)
        return 0
    if "atomic" in case:
        cfg, prefix, a, b = atomic_cases()[case["atomic"]]
        reached, got, serial, excs = SD.atomic_pair(cfg, prefix, a, b, case["line"])
        print("a %s operation started when a %s operation is at line %d of decider.py" % (b[0], a[0], case["line"]))
        print("outcome          :", got)
        print("serial a;b / b;a :", serial)
        bad = bool(excs) or got not in serial
        print("neither serial order" if bad else "equal to one of the serial orders")
        return 1 if bad else 0
    cfg, ops = pC12.norm_case(case)
    out, _, fail = work((cfg, ops))
    model, _ = common.coq_eval("C13r", SD.IMPORTS, "run_decider %s" % SD.case_coq(cfg, ops))
    print("implementation:", out)
    print("model         :", model)
    print("oracle        :", fail or "never more than one active run")
    return 1 if (fail or model != out) else 0
