"""Driving bobocep/dist/tcp.py deterministically, on the calling thread, without editing it (DESIGN.md 2.3).

What is here (shared by the checks of the incoming path C10/C11 and of the outgoing path):

  FakeClock                 scripted or free-running replacement for time.time()/time.sleep()
  FakeNet                   the scripted network: what accept() hands out, what connect()/sendall() do
  FakeSocket                one class for the listener, an outgoing connection and an accepted client
  ScriptedClient            an accepted client socket whose recv() results are scripted
  installed(net, clock)     context manager: bobocep.dist.tcp.socket / .time are the fakes inside it
  scripted_nonces(fn)       context manager: bobocep.dist.crypto.aes.get_random_bytes = fn inside it
  StubDecider               snapshot() + on_distributed_update() recorder
  SteppedTCP / make_stepped the real BoboDistributedTCP, built without starting threads, with
                            `_thread_closed` turned into a budget so that `_tcp_incoming()` /
                            `_tcp_outgoing()` run exactly n iterations of the real loop and return

Only these names of tcp.py are touched: the module globals `socket` and `time`, and the attributes
`_thread_closed`, `_running`, `_devices`, `_queue_incoming`, `_queue_outgoing`, `_subscribers` (read),
`_tcp_incoming`, `_tcp_outgoing`, `_tcp_incoming_handle_client`, `_update`.

Two harness-level conditions are raised as BaseException (so that no `except Exception` inside
bobocep can swallow them):

  BlockedForever   a blocking call (recv/accept) on a socket that has no timeout met a peer that
                   sends nothing: a real thread would never return from it
  ScriptExhausted  the scripted clock was read more often than the scenario provided for
"""
import contextlib
import socket as _real_socket
import time as _real_time

import common  # noqa: F401  (puts VERIF_REPO on sys.path)


class BlockedForever(BaseException):
    pass


class ScriptExhausted(BaseException):
    pass


# ------------------------------------------------------------------------------------------ clock
class FakeClock:
    """time.time() replacement.

    readings=None: free running: time() returns self.now (float seconds); advance()/sleep() move it;
                   `tick` is added after every read (0 by default).
    readings=[..]: scripted: every time() call pops the next reading (and sets self.now to it);
                   running out raises ScriptExhausted.
    """

    def __init__(self, readings=None, start=0.0, tick=0.0):
        self.readings = None if readings is None else list(readings)
        self.now = float(start)
        self.tick = tick
        self.calls = 0
        self.log = []

    def time(self):
        self.calls += 1
        if self.readings is not None:
            if not self.readings:
                raise ScriptExhausted("clock read %d times" % self.calls)
            self.now = self.readings.pop(0)
            self.log.append(self.now)
            return self.now
        t = self.now
        self.log.append(t)
        self.now += self.tick
        return t

    def advance(self, dt):
        self.now += dt

    def sleep(self, dt):
        self.advance(dt)


class _FakeTimeModule:
    """stands in for the module `time` inside bobocep.dist.tcp"""

    def __init__(self, clock):
        self._clock = clock

    def time(self):
        return self._clock.time()

    def sleep(self, dt):
        self._clock.sleep(dt)

    # the other clocks, consistent with time(): same rate, own origin (host booted 7 s before the first question)
    def monotonic(self):
        t = self._clock.time()
        if not hasattr(self, "_boot"):
            self._boot = t - 7
        return t - self._boot

    perf_counter = monotonic

    def time_ns(self):
        return int(self._clock.time() * 10 ** 9)

    def monotonic_ns(self):
        return int(self.monotonic() * 10 ** 9)

    perf_counter_ns = monotonic_ns

    def __getattr__(self, name):          # anything else: the real module
        return getattr(_real_time, name)


# ------------------------------------------------------------------------------------------ sockets
CLOSED = "closed"      # recv() returns b"" (peer closed its side)
TIMEOUT = "timeout"    # peer sends nothing: recv() waits for the socket's timeout (or for ever)
ACCEPT_TIMEOUT = "accept-timeout"   # nobody connects while accept() waits


class Reset:
    """script item: recv() raises ConnectionResetError (an OSError)"""


class Delayed:
    """script item (free-running clocks): `data` (bytes, or CLOSED) becomes available `dt` seconds after
    the recv() that first waits for it; a socket timeout shorter than the remaining wait fires first"""

    def __init__(self, dt, data):
        self.dt, self.data = dt, data


class ScriptedClient:
    """The socket object handed to `_tcp_incoming_handle_client`.

    script: list of  bytes (returned by recv; more than the n asked for is kept for the next recv),
                     CLOSED, TIMEOUT, Reset(), Delayed(dt, bytes | CLOSED).
            An exhausted script behaves like CLOSED (a finished sender has closed).
    clock:  optional FakeClock; a TIMEOUT read advances it by the socket's timeout (free-running clocks only).
    clock_readings: optional list; when FakeNet.accept() hands this client out, the net's clock is
            (re)scripted with these readings (first one = client_accepted).
    log:    list of (op, ...): ("settimeout", t), ("recv", n, timeout_in_force, kind, nbytes), ("close",)
    """

    def __init__(self, script, clock=None, origin=("10.0.0.99", 40001), clock_readings=None):
        self.script = list(script)
        self.clock = clock
        self.clock_readings = clock_readings
        self.origin = origin
        self.timeout = None
        self.closed = False
        self.log = []
        self.recv_calls = 0

    # -- socket API used by tcp.py (and by plausible repairs of it)
    def settimeout(self, t):
        self.timeout = t
        self.log.append(("settimeout", t))

    def gettimeout(self):
        return self.timeout

    def setblocking(self, flag):
        self.settimeout(None if flag else 0.0)

    def recv(self, n, *flags):
        if self.closed:
            raise OSError(9, "Bad file descriptor")
        self.recv_calls += 1
        item = self.script[0] if self.script else CLOSED
        if isinstance(item, Delayed):
            if self.timeout is not None and item.dt >= self.timeout:
                item.dt -= self.timeout
                self.log.append(("recv", n, self.timeout, "timeout", 0))
                if self.clock is not None and self.clock.readings is None:
                    self.clock.advance(self.timeout)
                raise _real_socket.timeout("timed out")
            if self.clock is not None and self.clock.readings is None:
                self.clock.advance(item.dt)
            item = self.script[0] = item.data
        if isinstance(item, (bytes, bytearray)):
            item = bytes(item)
            if len(item) > n:
                self.script[0] = item[n:]
                item = item[:n]
            else:
                self.script.pop(0)
            self.log.append(("recv", n, self.timeout, "bytes", len(item)))
            return item
        if item == CLOSED:
            if self.script:
                self.script.pop(0)
            self.log.append(("recv", n, self.timeout, "closed", 0))
            return b""
        if isinstance(item, Reset):
            self.script.pop(0)
            self.log.append(("recv", n, self.timeout, "reset", 0))
            raise ConnectionResetError(104, "Connection reset by peer")
        if item == TIMEOUT:
            if self.timeout is None:
                self.log.append(("recv", n, None, "blocked", 0))
                raise BlockedForever("recv() on a socket without timeout and a silent peer")
            self.script.pop(0)
            self.log.append(("recv", n, self.timeout, "timeout", 0))
            if self.clock is not None and self.clock.readings is None:
                self.clock.advance(self.timeout)
            raise _real_socket.timeout("timed out")
        raise AssertionError("bad script item %r" % (item,))

    def recv_into(self, buf, nbytes=0, *flags):
        data = self.recv(nbytes or len(buf))
        buf[:len(data)] = data
        return len(data)

    def shutdown(self, how):
        self.log.append(("shutdown", how))

    def close(self):
        self.closed = True
        self.log.append(("close",))

    def getpeername(self):
        return self.origin

    def fileno(self):
        return 99

    def __enter__(self):
        return self

    def __exit__(self, *a):
        self.close()


class FakeNet:
    """The scripted network behind the fake `socket` module.

    incoming: list of  ScriptedClient | ACCEPT_TIMEOUT  handed out by accept(), in order; an exhausted
              list behaves like ACCEPT_TIMEOUT for ever.
    on_connect(sock, (addr, port)) -> None | exception instance   (outgoing connections; default: success)
    on_send(sock, (addr, port), data) -> None | exception instance (default: delivered: appended to .sent)
    on_accept(index, client) -> None   called when accept() is about to hand out a client (a yield point:
              everything the previous client caused has happened by now)
    """

    def __init__(self, incoming=(), clock=None, on_connect=None, on_send=None, on_accept=None):
        self.incoming = list(incoming)
        self.clock = clock
        self.on_connect = on_connect
        self.on_send = on_send
        self.on_accept = on_accept
        self.sockets = []
        self.sent = []          # (dest (addr, port), bytes) of every completed sendall
        self.accepted = []      # clients handed out
        self.log = []

    def new_socket(self, *a):
        s = FakeSocket(self)
        self.sockets.append(s)
        return s


class FakeSocket:
    """listener or outgoing connection, depending on what is called on it"""

    def __init__(self, net):
        self.net = net
        self.timeout = None
        self.bound = None
        self.listening = None
        self.peer = None
        self.closed = False
        self.log = []

    def setsockopt(self, *a):
        self.options = getattr(self, "options", {})
        if len(a) == 3:
            self.options[(a[0], a[1])] = a[2]

    def settimeout(self, t):
        self.timeout = t
        self.log.append(("settimeout", t))

    def gettimeout(self):
        return self.timeout

    # -- listener
    def bind(self, addr):
        self.bound = addr

    def listen(self, n=0):
        self.listening = n

    def accept(self):
        net = self.net
        item = net.incoming.pop(0) if net.incoming else ACCEPT_TIMEOUT
        if item == ACCEPT_TIMEOUT:
            if self.timeout is None:
                raise BlockedForever("accept() without timeout and nobody connects")
            if net.clock is not None and net.clock.readings is None:
                net.clock.advance(self.timeout)
            net.log.append(("accept-timeout", self.timeout))
            raise _real_socket.timeout("timed out")
        if net.on_accept is not None:
            net.on_accept(len(net.accepted), item)
        net.accepted.append(item)
        net.log.append(("accept", item.origin))
        readings = getattr(item, "clock_readings", None)
        if readings is not None and net.clock is not None:
            net.clock.readings = list(readings)     # this connection's own clock script
        return item, item.origin

    # -- outgoing
    def connect(self, addr):
        self.peer = addr
        r = self.net.on_connect(self, addr) if self.net.on_connect else None
        self.net.log.append(("connect", addr, type(r).__name__ if r is not None else "ok"))
        if r is not None:
            raise r

    def sendall(self, data):
        r = self.net.on_send(self, self.peer, bytes(data)) if self.net.on_send else None
        self.net.log.append(("sendall", self.peer, len(data), type(r).__name__ if r is not None else "ok"))
        if r is not None:
            raise r
        self._mine = getattr(self, "_mine", []) + [len(self.net.sent)]
        self.net.sent.append((self.peer, bytes(data)))

    def send(self, data, *flags):
        """like a real socket with a finite send buffer: ONE call takes at most net.send_max bytes and says how many"""
        n = min(len(data), getattr(self.net, "send_max", 512))
        part = bytes(data[:n])
        r = self.net.on_send(self, self.peer, part) if self.net.on_send else None
        self.net.log.append(("send", self.peer, n, type(r).__name__ if r is not None else "ok"))
        if r is not None:
            raise r
        self._mine = getattr(self, "_mine", []) + [len(self.net.sent)]
        self.net.sent.append((self.peer, part))
        return n

    def close(self):
        self.closed = True
        # SO_LINGER on with a zero linger time makes close() ABORTIVE: what the peer's kernel has not taken yet (here:
        # everything beyond its receive buffer, net.rcvbuf bytes) is thrown away and the peer gets a reset
        import struct
        lg = getattr(self, "options", {}).get((_real_socket.SOL_SOCKET, _real_socket.SO_LINGER))
        if isinstance(lg, (bytes, bytearray)) and len(lg) >= 8:
            onoff, secs = struct.unpack("ii", bytes(lg[:8]))
            if onoff and secs == 0:
                room = getattr(self.net, "rcvbuf", 131072)
                for i in getattr(self, "_mine", []):
                    peer, b = self.net.sent[i]
                    self.net.sent[i] = (peer, b[:max(room, 0)])
                    room -= len(b)
                self.net.aborted = True


class _FakeSocketModule:
    """stands in for the module `socket` inside bobocep.dist.tcp"""

    def __init__(self, net):
        self._net = net
        self.timeout = _real_socket.timeout
        self.error = _real_socket.error

    def socket(self, *a, **k):
        return self._net.new_socket(*a)

    def __getattr__(self, name):          # AF_INET, SOCK_STREAM, SHUT_RDWR, ...
        return getattr(_real_socket, name)


@contextlib.contextmanager
def installed(net=None, clock=None):
    """Inside the block bobocep.dist.tcp uses the fake socket module (if net is given) and the fake
    clock (if clock is given)."""
    import bobocep.dist.tcp as T
    old_s, old_t = T.socket, T.time
    try:
        if net is not None:
            T.socket = _FakeSocketModule(net)
        if clock is not None:
            T.time = _FakeTimeModule(clock)
        yield
    finally:
        T.socket, T.time = old_s, old_t


@contextlib.contextmanager
def scripted_nonces(fn):
    """Inside the block aes.encrypt draws its nonce from fn(n) -> bytes of length n."""
    import bobocep.dist.crypto.aes as A
    old = A.get_random_bytes
    A.get_random_bytes = fn
    try:
        yield
    finally:
        A.get_random_bytes = old


def counter_nonces(start=0):
    """nonce source: big-endian counter, start, start+1, ..."""
    state = [start]

    def fn(n):
        v = state[0]
        state[0] += 1
        return v.to_bytes(n, "big")
    return fn


# ------------------------------------------------------------------------------------------ instance
class StubDecider:
    """What BoboDistributedTCP needs from a decider: snapshot(); and a subscriber recording
    on_distributed_update calls."""

    def __init__(self, snapshot=None):
        self._snapshot = snapshot if snapshot is not None else ([], [], [])
        self.updates = []      # (completed, halted, updated) per on_distributed_update call

    def snapshot(self):
        s = self._snapshot() if callable(self._snapshot) else self._snapshot
        return list(s[0]), list(s[1]), list(s[2])

    def on_distributed_update(self, completed, halted, updated):
        self.updates.append((list(completed), list(halted), list(updated)))

    def subscribe(self, subscriber):
        pass


DEFAULT_AES_KEY = "0123456789abcdef"


def make_devices(n, base_port=9000):
    """n devices  urn dev0..dev{n-1}, id keys key0.., addresses 10.0.0.1.., ports base_port.."""
    from bobocep.dist.device import BoboDevice
    return [BoboDevice(addr="10.0.0.%d" % (i + 1), port=base_port + i, urn="dev%d" % i, id_key="key%d" % i)
            for i in range(n)]


def _stepped_class():
    from bobocep.dist.tcp import BoboDistributedTCP

    class SteppedTCP(BoboDistributedTCP):
        """The real class; `_thread_closed` answers False `budget` times, then True."""

        _budget = 0

        @property
        def _thread_closed(self):
            if self._budget > 0:
                self._budget -= 1
                return False
            return True

        @_thread_closed.setter
        def _thread_closed(self, v):
            if v:
                self._budget = 0

        # ---- stepping
        def incoming_iterations(self, n):
            """exactly n iterations of the real accept loop (`_tcp_incoming`), on this thread"""
            self._budget = n
            self._tcp_incoming()

        def outgoing_iterations(self, n):
            """exactly n iterations of the real `_tcp_outgoing` loop, on this thread"""
            self._budget = n
            self._tcp_outgoing()

        def handle_client(self, client, addr=None, accepted=0):
            """one call of the real `_tcp_incoming_handle_client`"""
            return self._tcp_incoming_handle_client(client, addr if addr is not None else client.origin[0],
                                                    accepted)

        def dispatch(self):
            """the body of run()'s loop: incoming queue -> subscribers"""
            self._update()

        def mark_running(self):
            """what run() does, minus starting the threads"""
            self._running = True

        # ---- observation (canonical, no wall-clock, no object identity)
        def peer_state(self):
            """{urn: dict(addr, last_comms, last_attempt, flag_reset, stash=(nc, nh, nu))}"""
            out = {}
            for urn, d in self._devices.items():
                st = d.stash()
                out[urn] = dict(addr=d.addr, last_comms=d.last_comms, last_attempt=d.last_attempt,
                                flag_reset=d.flag_reset, stash=(len(st[0]), len(st[1]), len(st[2])))
            return out

        def incoming_items(self):
            """contents of the incoming queue, oldest first, not consumed"""
            return list(self._queue_incoming.queue)

        def outgoing_items(self):
            return list(self._queue_outgoing.queue)

    return SteppedTCP


def make_stepped(n_devices=2, me=0, devices=None, crypto=None, decider=None, aes_key=DEFAULT_AES_KEY,
                 subscribe=True, **kw):
    """A real BoboDistributedTCP (subclass SteppedTCP) for device number `me` of `n_devices`
    (or of the given BoboDevice list); no thread is started.  kw: constructor arguments of
    BoboDistributedTCP (timeout_receive, recv_bytes, max_size_incoming, period_ping, flag_reset, ...).
    Returns (dist, decider)."""
    from bobocep.dist.crypto.aes import BoboDistributedCryptoAES
    devices = devices if devices is not None else make_devices(n_devices)
    decider = decider if decider is not None else StubDecider()
    crypto = crypto if crypto is not None else BoboDistributedCryptoAES(aes_key)
    cls = _stepped_class()
    dist = cls(urn=devices[me].urn, decider=decider, devices=devices, crypto=crypto, **kw)
    if subscribe:
        dist.subscribe(decider)
    return dist, decider


def wire_message(crypto, urn, id_key, msg_type, msg_flags, payload):
    """the bytes `_tcp_send` would put on the wire for this header and payload text"""
    return bytes(crypto.encrypt("{} {} {} {} {}".format(urn, id_key, msg_type, msg_flags, payload)))


def cut(data, points):
    """split bytes at the given sorted offsets -> list of chunks (empty chunks dropped)"""
    out, prev = [], 0
    for p in list(points) + [len(data)]:
        if p > prev:
            out.append(data[prev:p])
            prev = p
    return out


# ------------------------------------------------------------------------------------------ payloads
def make_run_serial(i=0, data="x", urn="dev1", n_events=1, block_index=1):
    """a real BoboRunSerial (one group, n_events simple events carrying `data`)"""
    from bobocep.cep.engine.decider.runserial import BoboRunSerial
    from bobocep.cep.event import BoboHistory
    from bobocep.cep.event.simple import BoboEventSimple
    evs = [BoboEventSimple(event_id="%s_e%d_%d" % (urn, i, k), timestamp=1700000000 + k, data=data)
           for k in range(n_events)]
    return BoboRunSerial(run_id="%s_1700000000_%d" % (urn, i), phenomenon_name="ph", pattern_name="pat",
                         block_index=block_index, history=BoboHistory({"g": evs}))


def payload_json(completed=(), halted=(), updated=()):
    """the JSON text `_tcp_outgoing` sends for these three lists of BoboRunSerial"""
    import json
    import bobocep.dist.tcp as T
    return json.dumps({"completed": list(completed), "halted": list(halted), "updated": list(updated)},
                      cls=T._OutgoingJSONEncoder)


def run_ids(incoming):
    """canonical view of one incoming-queue item / on_distributed_update call"""
    if isinstance(incoming, dict):
        incoming = (incoming.get("completed"), incoming.get("halted"), incoming.get("updated"))
    # (an entry that is not a run record - None, a number - is shown by its type: the caller's oracle decides)
    return [[getattr(r, "run_id", "<%s>" % type(r).__name__) for r in part] for part in incoming]


def streaming_junk_probe(trecv, nrecv, chunk, dt, payload=None):
    """An unauthenticated client that keeps delivering `chunk` junk bytes every `dt` seconds (never a complete
    message) for longer than the receive timeout, then a valid SYNC on a fresh connection.  Free-running clock.
    -> dict(finish = seconds after accept at which the junk connection was given up (None: never returned),
            delivered_junk, valid_queued, peers_unchanged_by_junk)"""
    import math
    dist, dec = make_stepped(3, me=0, timeout_receive=trecv, recv_bytes=nrecv)
    if hasattr(dist, "mark_running"):
        dist.mark_running()
    clock = FakeClock(start=1000.0, tick=0.01)
    k = int(math.ceil((trecv * 4 + 4) / dt)) + 2
    junk = bytes((7 + i) % 251 or 1 for i in range(chunk)).replace(b"B", b"c")
    script = [Delayed(dt, junk) for _ in range(k)] + [TIMEOUT]
    client = ScriptedClient(script, clock)
    before = dist.peer_state()
    hung, finish = False, None
    with installed(None, clock):
        try:
            dist.handle_client(client, "10.6.6.6", 1000)
        except BlockedForever:
            hung = True
        except Exception:       # noqa  the timeout / system error of a rejected client
            pass
    if not hung:
        finish = clock.now - 1000.0
    unchanged = dist.peer_state() == before and len(dist.incoming_items()) == 0
    valid = wire_message(dist._crypto, "dev1", "key1", 0, 0, payload or payload_json(updated=[make_run_serial(5, "v")]))
    clock2 = FakeClock(start=clock.now + 1.0, tick=0.01)
    ok = ScriptedClient([valid], clock2)
    with installed(None, clock2):
        try:
            dist.handle_client(ok, "10.1.1.1", int(clock2.now))
        except BaseException as e:  # noqa
            if isinstance(e, (KeyboardInterrupt, SystemExit)):
                raise
    return dict(finish=finish, hung=hung, valid_queued=len(dist.incoming_items()) == 1, peers_unchanged_by_junk=unchanged,
                recvs=sum(1 for e in client.log if e[0] == "recv"))


def sender_probe(text_len, send_max=512, recv_bytes=2048, trecv=3, names=None, kind="updated"):
    """The SENDER's side of 'every message the sender reports as sent is decoded and applied': the real _tcp_send
    writes a SYNC whose payload has about text_len characters to a socket whose send() takes at most send_max bytes
    per call (sendall() loops, as the real one does); what reached the wire is then read by a real receiver.
    -> dict(reported = _tcp_send's return value, wire_bytes, message_bytes, delivered)"""
    devs = None
    if names:       # names: ((urn, id key) of the receiver, (urn, id key) of the sender) - any text without a space
        from bobocep.dist.device import BoboDevice
        devs = [BoboDevice(addr="10.0.0.%d" % (i + 1), port=9000 + i, urn=u, id_key=k) for i, (u, k) in enumerate(names)]
    snd, _ = make_stepped(2, me=1, devices=devs)
    rcv, rcv_dec = make_stepped(2, me=0, devices=devs, timeout_receive=trecv, recv_bytes=recv_bytes)
    runs = [make_run_serial(i, "x" * 40) for i in range(max(1, text_len // 330))]
    ping = kind == "ping"        # the shortest message there is: a PING ("{}") carrying RESET
    payload = "{}" if ping else payload_json(**{kind: runs})      # kind: which of the three lists carries the runs
    clock = FakeClock(start=1000.0, tick=0.01)
    net = FakeNet([], clock)
    net.send_max = send_max
    full = []
    real_encrypt = snd._crypto.encrypt

    def spy(msg):
        out = real_encrypt(msg)
        full.append(bytes(out))
        return out
    snd._crypto.encrypt = spy
    with installed(net, clock):
        try:
            rc = snd._tcp_send(snd._devices[names[0][0] if names else "dev0"], 1 if ping else 0, 1 if ping else 0, payload)
        except Exception as e:   # noqa
            rc = "raised %s" % type(e).__name__
    wire = b"".join(b for (_peer, b) in net.sent)
    delivered = False
    if wire:
        c2 = FakeClock(start=2000.0, tick=0.01)
        client = ScriptedClient([wire, TIMEOUT], c2)
        sender_urn = names[1][0] if names else "dev1"
        if ping:
            rcv._devices[sender_urn].last_comms = 5
        raised = None
        with installed(None, c2):
            try:
                rcv.handle_client(client, "10.0.0.2", 2000)
            except BaseException as e:  # noqa
                if isinstance(e, (KeyboardInterrupt, SystemExit)):
                    raise
                raised = e
        if ping:     # applied = recognised as a whole message and its RESET honoured (contact times cleared)
            return dict(reported=rc, wire_bytes=len(wire), message_bytes=len(full[0]) if full else None,
                        delivered=raised is None and rcv._devices[sender_urn].last_comms == 0)
        delivered = len(rcv.incoming_items()) == 1
        if delivered:
            # ... and APPLIED: the run() loop hands it to the subscribers with the same runs in the same list
            want = [[r.run_id for r in runs] if k == kind else [] for k in ("completed", "halted", "updated")]
            try:
                rcv.dispatch()
            except Exception:        # noqa
                pass
            delivered = [run_ids(u) for u in rcv_dec.updates] == [want]
    return dict(reported=rc, wire_bytes=len(wire), message_bytes=len(full[0]) if full else None, delivered=delivered)
