"""C12 Run lifecycle is monotone and terminal; published snapshots never change."""
import common
import gen_patterns as G
import predlang as PL
import sim_decider as SD
from par import pmap

PROP = "C12"
PROPERTY_FILES = ["Properties/C12.v"]
META = dict(
    level_text="Theorems (Coq, all histories of local events and arbitrary remote records, arbitrary predicates): index "
               "never decreases, local processing only appends the accepted event, a finished run ignores events and "
               "leaves the active set in the step in which it finishes, announcements come only from runs that were "
               "active, remote records never drop or move a run backwards and are applied only when ahead, active ids of "
               "a pattern are pairwise distinct. PARTIAL for 'published snapshots never change': Gallina values are "
               "immutable, so that clause is carried by the correspondence/oracle only - every record published at an "
               "earlier step is re-serialised after every later step and compared.",
    level_note="Trusted: Coq kernel; harness mirrors; frozen-snapshot clause is checked by exploration, not by a theorem "
               "(Python aliasing is not expressible in the model).",
    rule="mixed sequences of local events and generated remote records (ahead/equal/behind/unknown pattern, duplicated, "
         "merged) over C01-style patterns incl. loops/optional/negated/singleton; non-trivial = a remote record met an "
         "existing local run or a run finished",
    trusted_base=["harness/predlang.py, sim_decider.py encoders"],
    assumptions=["run ids produced by the local generator are fresh", "pattern names unique within a phenomenon"])


def gen_cases(ctx):
    rng = ctx.rng
    cases = []
    shapes = G.shapes(3)
    for shape in shapes:
        for v in (0, 3):
            pre, halt, single = G.VARIANTS[v]
            cfg = dict(phen=[(1, [G.pattern(1, G.assign(shape, 1, "distinct"), pre, halt, single)])],
                       maxcache=rng.choice([0, 10]), idbase=1000)
            for _ in range(6 if ctx.quick else 40):
                cases.append((cfg, G.rand_ops(rng, cfg, rng.randint(2, 6))))
    for _ in range(1500 if ctx.quick else 20000):
        cfg = G.rand_config(rng, maxblocks=5)
        if rng.random() < 0.3:       # some predicates raise on some events (any exception class): runs that finish
            G.add_raises(rng, cfg)   # on that very event must still leave the active set and be announced
            cfg["mode"] = dict(exc=rng.choice(["KeyError", "IndexError", "AttributeError", "ValueError", "RuntimeError", "UserError"]))
        if rng.random() < 0.25:      # some notifications are refused by a later subscriber (the caller carries on)
            cfg = dict(cfg, refuse=sorted(rng.sample(range(12), 2)))
        cases.append((cfg, G.rand_ops(rng, cfg, rng.randint(3, 10 if ctx.quick else 25))))
    return cases


def hist_list(h):
    return [(g, [e.event_id for e in h.group(g)]) for g in h.all_groups()]


def work(case):
    cfg, ops = case
    dec, rec = SD.make_decider(cfg)
    out, fail, nontrivial = [], None, False
    published = []          # (object, text at publication)
    announced = {}          # run id -> number of local finishing announcements
    pats = {(PL.phname(ph), PL.patname(p["name"])): p for ph, ps in cfg["phen"] for p in ps}
    for k, op in enumerate(ops):
        before = {(r.phenomenon_name, r.pattern.name, r.run_id): (r.block_index, hist_list(r.history()))
                  for r in dec.all_runs()}
        dec.verif_boom.armed = k in cfg.get("refuse", ())      # a later subscriber refuses this notification
        o, lists = SD.apply_op(dec, rec, op)
        out += o
        if lists is None:
            if op[0] == "remote" and fail is None:
                fail = SD.remote_raise_failure(dec, k)
            elif op[0] == "local" and fail is None and "BoboDeciderError" not in getattr(dec, "verif_error", ""):
                fail = dict(signature="exception-escaped-decider", step=k, detail=None,
                            what="%s escaped BoboDecider.update(): runs that finished on this event stay in the active set "
                                 "unannounced" % getattr(dec, "verif_error", "an exception"))
            break
        comp, halt, upd = lists
        after = {}
        dup = False
        for r in dec.all_runs():
            key = (r.phenomenon_name, r.pattern.name, r.run_id)
            if key in after:
                dup = True
            after[key] = (r.block_index, hist_list(r.history()))

        def bad(sig, what, detail=None):
            # D17 (known finding): for a singleton pattern a message that finishes the local run under the peer's
            # run id and also carries a (stale) update naming the local run's id re-creates that run
            if op[0] == "remote" and sig in ("index-decreased", "remote-applied-not-ahead", "history-not-append"):
                for (ph_, pat_, rid_) in before:
                    p_ = pats.get((ph_, pat_))
                    if p_ and p_["single"] and any(str(r["id"]) == rid_ for r in op[1]["upd"]) and \
                            any(PL.phname(r["ph"]) == ph_ and PL.patname(r["pat"]) == pat_ and str(r["id"]) != rid_
                                for kk in ("comp", "halt") for r in op[1][kk]):
                        sig = "singleton-run-finished-under-peer-id-recreated-by-same-message"
            return dict(signature=sig, step=k, what=what, detail=detail)
        if fail is None and dup:
            fail = bad("duplicate-active-id", "two active runs of one pattern share an identifier")
        dead = [r for r in dec.all_runs() if r.is_halted() or r.is_complete()]
        if fail is None and dead:
            fail = bad("finished-still-active", "run %s has %s but is still in the active set (never announced, never remembered)"
                       % (dead[0].run_id, "halted" if dead[0].is_halted() else "completed"))
        for key, (i0, h0) in before.items():
            if fail is not None:
                break
            if key not in after:
                continue
            i1, h1 = after[key]
            if i1 < i0:
                fail = bad("index-decreased", "block index of run %s went from %d to %d" % (key[2], i0, i1))
            elif op[0] == "local" and h1 != h0:
                # exactly one event appended to one group (existing or new at the end)
                ev = "e%d" % op[1][0]
                ok = False
                for gi, (g, es) in enumerate(h1):
                    if es and es[-1] == ev:
                        h1m = [(g2, list(es2)) for g2, es2 in h1]
                        h1m[gi][1].pop()
                        if not h1m[gi][1]:
                            h1m.pop(gi)
                        if h1m == [(g2, list(es2)) for g2, es2 in h0]:
                            ok = True
                if not ok:
                    fail = bad("history-not-append", "local step changed the history of run %s other than by appending the event" % key[2],
                               dict(before=h0, after=h1))
            elif op[0] == "remote" and (i1, h1) != (i0, h0):
                n0 = sum(len(es) for _, es in h0)
                cands = []
                single = bool(pats.get((key[0], key[1]), {}).get("single"))
                for r in op[1]["upd"]:
                    # only a record of this run's own pattern, naming this run (or, for a singleton pattern, standing
                    # for its one run under the peer's identifier) can have moved it
                    if (PL.phname(r["ph"]), PL.patname(r["pat"])) != (key[0], key[1]) or (str(r["id"]) != key[2] and not single):
                        continue
                    hr = [(PL.gname(g), ["e%d" % e[0] for e in es]) for g, es in r["hist"]]
                    nr = sum(len(es) for _, es in hr)
                    if (r["idx"], hr) == (i1, h1) and (r["idx"] > i0 or (r["idx"] == i0 and nr > n0)):
                        cands.append(r)
                if not cands:
                    fail = bad("remote-applied-not-ahead", "a remote record changed run %s although it was not ahead" % key[2],
                               dict(before=(i0, h0), after=(i1, h1)))
                nontrivial = True
        if op[0] == "local":
            for r in comp + halt:
                nontrivial = True
                announced[r.run_id] = announced.get(r.run_id, 0) + 1
                if fail is None and announced[r.run_id] > 1 and cfg['maxcache'] >= 50:
                    fail = bad("announced-twice", "run %s was announced as finished twice by this instance" % r.run_id)
                if fail is None and any(k2[2] == r.run_id and k2[0] == r.phenomenon_name and k2[1] == r.pattern_name
                                        for k2 in after):
                    fail = bad("finished-still-active", "run %s finished but is still active" % r.run_id)
        # what this instance publishes about a run never lies behind where the run already was
        if op[0] == "local":
            for r in comp + halt + upd:
                key = (r.phenomenon_name, r.pattern_name, r.run_id)
                if fail is None and key in before:
                    n0 = sum(len(es) for _, es in before[key][1])
                    n1 = sum(len(es) for _, es in hist_list(r.history))
                    if r.block_index < before[key][0] or n1 < n0:
                        fail = bad("announced-position-behind-run",
                                   "run %s was at block %d with %d events before this event, and is announced at block %d with "
                                   "%d events: its published position moved backwards" % (r.run_id, before[key][0], n0, r.block_index, n1),
                                   dict(before=before[key], announced=(r.block_index, hist_list(r.history))))
        if fail is None:
            try:
                snap = dec.snapshot()[2]
            except Exception:    # noqa (not this oracle's concern)
                snap = []
            for r in snap:
                key = (r.phenomenon_name, r.pattern_name, r.run_id)
                if fail is None and key in after and (r.block_index, hist_list(r.history)) != after[key]:
                    fail = bad("snapshot-differs-from-run",
                               "snapshot() publishes run %s at %r while the run is at %r" %
                               (r.run_id, (r.block_index, hist_list(r.history)), after[key]))
        # frozen snapshots
        for obj, text in published:
            if fail is None and obj.to_json_str() != text:
                fail = bad("snapshot-mutated", "a record published earlier reads differently now",
                           dict(then=text, now=obj.to_json_str()))
        for r in comp + halt + upd:
            published.append((r, r.to_json_str()))
    if fail is None:
        fail = finished_stays_out(case)
    return out, nontrivial, fail


def finished_stays_out(case):
    """the lifecycle is terminal also for runs this instance only HEARD finished (memory enabled and not overflowing):
    an identifier a peer reported completed or halted never becomes active here afterwards (C05's bookkeeping; the
    known singleton case D17 keeps its own signature there and is not taken over)"""
    import pC05
    _, _, f = pC05.work(case)
    return f if f and f["signature"] == "finished-run-active-again" else None


def run(ctx, res):
    cases = gen_cases(ctx)
    results = pmap(work, cases)
    coq_cases = []
    for (cfg, ops), (out, nontrivial, fail) in zip(cases, results):
        res.note_case((PL.config_coq(cfg), repr(ops)), nontrivial)
        res.count("ops_%d" % min(len(ops), 20))
        res.count("remote_ops", sum(1 for o in ops if o[0] == "remote"))
        coq_cases.append((SD.case_coq(cfg, ops), out))
        if fail:
            res.failures.append(dict(signature=fail["signature"], what=fail["what"],
                                     case=dict(cfg=cfg, ops=ops[:fail["step"] + 1]), detail=fail["detail"]))
    res.failures.sort(key=lambda f: len(repr(f["case"])))
    # the engine thread finishing a run while the replication thread delivers a word about the same run (and the other
    # way round), the second operation starting at every line of the first: a finished run stays out, announced once
    import pC05
    before = len(res.failures)
    pC05.atomic_half(res)
    for f in res.failures[before:]:
        f["case"] = dict(f["case"], two_threads=True)
    res.samples = [dict(cfg=cases[0][0], ops=cases[0][1])]
    mism, errs = common.coq_run_cases("C12", SD.IMPORTS, "run_decider", "(cdesc * list dop)", coq_cases, shard=150)
    res.errors += errs
    res.traces_validated = len(coq_cases) - len(mism)
    for idx, model_out in mism[:10]:
        res.mismatches.append(dict(case=dict(cfg=cases[idx][0], ops=cases[idx][1]), impl=coq_cases[idx][1], model=model_out))


def norm_case(case):
    cfg = case["cfg"]
    cfg["phen"] = [(k, ps) for k, ps in cfg["phen"]]
    ops = []
    for o in case["ops"]:
        if o[0] == "local":
            ops.append(("local", tuple(o[1])))
        else:
            n = {k: [dict(r, hist=[(g, [tuple(e) for e in es]) for g, es in r["hist"]]) for r in o[1][k]] for k in o[1]}
            ops.append(("remote", n))
    return cfg, ops


def replay(obj):
    case = obj.get("case") or (obj.get("mismatches") or [{}])[0].get("case")
    if not case:
        print(obj)
        return 0
    if case.get("two_threads"):
        import pC05
        return pC05.replay(dict(obj, case={k: v for k, v in case.items() if k != "two_threads"}))
    cfg, ops = norm_case(case)
    out, _, fail = work((cfg, ops))
    model, _ = common.coq_eval("C12r", SD.IMPORTS, "run_decider %s" % SD.case_coq(cfg, ops))
    print("implementation:", out)
    print("model         :", model)
    print("oracle        :", fail or "no lifecycle violation")
    return 1 if (fail or model != out) else 0
