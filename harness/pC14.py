"""C14 A failing predicate cannot corrupt or stop detection."""
import copy

import common
import gen_patterns as G
import predlang as PL
import ref_oracle as RO
import sim_decider as SD
import pC12
from par import pmap

PROP = "C14"
PROPERTY_FILES = ["Properties/C14.v"]
META = dict(
    level_text="Theorems (Coq, arbitrary predicates): if any predicate/pre-/haltcondition raises while a run processes "
               "an event the run is kept exactly as it was and nothing is reported for it; a decider step never fails "
               "because of a predicate; the table after a step is computed run by run (independence); a run on which "
               "nothing raised behaves exactly as with predicates returning False instead of raising; a raising "
               "first-block predicate counts as no match. Tie: C01 cases with raises injected at every (predicate, "
               "event position), model vs implementation after every event; oracle: documented semantics with "
               "'raise = run untouched', and comparison with the same stream where the predicate returns False.",
    level_note="Trusted: Coq kernel; harness mirrors. Exceptions are modelled as the value PRaise; the implementation is "
               "driven with PredRaise and with built-in exception types (TypeError, ValueError, KeyError, ...), raised "
               "from plain predicates and from inside typed predicates whose cast path is taken.",
    rule="C01 patterns/streams; one or more (predicate, timestamp) raise points chosen exhaustively for small cases and "
         "randomly for larger ones; non-trivial = a raise actually happened while a run or a first block evaluated",
    trusted_base=["harness/predlang.py, ref_oracle.py"],
    assumptions=["predicate exceptions derive from Exception (the decider catches Exception)"])


def inject(p, where, tss):
    """wrap predicate number `where` (pre-order over pre, halt, block predicates) in a scripted raise"""
    p = copy.deepcopy(p)
    slots = [("pre", i) for i in range(len(p["pre"]))] + [("halt", i) for i in range(len(p["halt"]))] + \
            [("blk", (bi, pi)) for bi, b in enumerate(p["blocks"]) for pi in range(len(b["preds"]))]
    kind, ix = slots[where % len(slots)]
    if kind == "blk":
        bi, pi = ix
        p["blocks"][bi]["preds"][pi] = ("raiseon", list(tss), p["blocks"][bi]["preds"][pi])
    else:
        p[kind][ix] = ("raiseon", list(tss), p[kind][ix])
    return p, len(slots)


def raise_ts(p):
    """timestamps at which a scripted raise inside the predicate fires"""
    if not isinstance(p, tuple):
        return set()
    out = set(p[1]) if p[0] == "raiseon" else set()
    for x in p[1:]:
        out |= raise_ts(x)
    return out


def castraise_cfg(cfg, exc):
    """the raise comes from the CAST of the typed predicate: the events with the scripted timestamps carry a datum
    whose conversion raises `exc`, so EVERY (typed) predicate evaluated on such an event raises"""
    c = copy.deepcopy(cfg)
    allp = [x for _ph, ps in c["phen"] for p in ps for x in p["pre"] + p["halt"] + [q for b in p["blocks"] for q in b["preds"]]]
    ts = sorted(set().union(*[raise_ts(x) for x in allp]) if allp else set())

    def wrap(x):
        return ("raiseon", ts, PL.strip_raise(x) if "raisehist" not in repr(x) else x)
    for _ph, ps in c["phen"]:
        for p in ps:
            p["pre"] = [wrap(x) for x in p["pre"]]
            p["halt"] = [wrap(x) for x in p["halt"]]
            for b in p["blocks"]:
                b["preds"] = [wrap(x) for x in b["preds"]]
    c["mode"] = dict(typed=True, castexc=exc, cast_ts=ts)
    return c


def deraise_cfg(cfg):
    c = copy.deepcopy(cfg)
    if (c.get("mode") or {}).get("castexc"):
        c["mode"] = dict(typed=True)          # the False variant: ordinary data, predicates answer False there
    for _ph, ps in c["phen"]:
        for p in ps:
            p["pre"] = [PL.strip_raise(x) for x in p["pre"]]
            p["halt"] = [PL.strip_raise(x) for x in p["halt"]]
            for b in p["blocks"]:
                b["preds"] = [PL.strip_raise(x) for x in b["preds"]]
    return c


# how a predicate fails: the scripted raise throws PredRaise (None) or a built-in exception, from a plain
# BoboPredicateCall or from inside a BoboPredicateCallType(int, cast=True) whose cast path is taken (data travel as text)
MODES = [None, dict(typed=True, exc="TypeError"), dict(exc="KeyError"), dict(typed=True, exc="ValueError"),
         dict(exc="TypeError"), dict(typed=True, subtype=False, exc="ZeroDivisionError"), dict(exc="ValueError"),
         dict(typed=True), dict(exc="StopIteration"), dict(typed=True, subtype=False, exc="TypeError"),
         dict(exc="AttributeError")]
# ... and every other exception class below Exception (IndexError, LookupError, RecursionError, OSError, user-defined
# classes ...), alternately from a plain and from a typed predicate
# ... and raised WITHOUT arguments (`raise KeyError`, a bare `assert`): e.args is empty
MODES += [dict(exc=n, noargs=True) for n in ("AssertionError", "NotImplementedError", "ValueError", "KeyError", "UserError", "StopIteration")]
MODES += [dict(exc=n, typed=True) if i % 3 == 2 else dict(exc=n)
          for i, n in enumerate(sorted(PL.EXC)) if n not in {m["exc"] for m in MODES if m and "exc" in m and not m.get("noargs")}]


CAST_EXC = ["OverflowError", "RuntimeError", "ZeroDivisionError", "UserError", "ArithmeticError", "RecursionError"]


def gen_cases(ctx):
    cases = gen_cases0(ctx)
    out = []
    for i, (cfg, ops, t) in enumerate(cases):
        m = MODES[i % len(MODES)]
        if i % 9 == 4 and "raisehist" not in repr(cfg):
            # the cast itself fails, with an exception that is neither TypeError nor ValueError (those mean "False")
            cfg = castraise_cfg(cfg, CAST_EXC[(i // 9) % len(CAST_EXC)])
        elif m is not None:
            cfg = dict(cfg, mode=m)
        out.append((cfg, ops, t))
    return out


def hist_cases():
    """a predicate that raises because of the RUN's history (not because of the event): of several runs of one pattern
    an earlier-created one raises while a later-created one must still be offered the event"""
    B = G.blk
    out = []
    for kind3 in ("R", "S"):
        for where in ("blk", "pre", "halt"):
            blocks = [B([("deq", 1)], "R", 1), B([("deq", 2)], "RL", 1), B([("deq", 3)], kind3, 2), B([("deq", 4)], "R", 3)]
            pre, halt = [], []
            if where == "blk":
                blocks[2]["preds"] = [("raisehist", 1, 3, ("deq", 3))]
            elif where == "pre":
                pre = [("raisehist", 1, 3, ("const", True))]
            else:
                halt = [("raisehist", 1, 3, ("deq", 5))]
            p = G.pattern(1, blocks, pre, halt, False)
            cfg = dict(phen=[(1, [p])], maxcache=0, idbase=1000)
            for st in ([1, 2, 2, 1, 3, 4], [1, 2, 2, 1, 2, 3, 3, 4], [1, 1, 2, 2, 2, 3, 4], [1, 2, 2, 2, 1, 1, 3, 5, 4]):
                out.append((cfg, [("local", e) for e in G.events(st)], 0))
    return out


def gen_cases0(ctx):
    rng = ctx.rng
    cases = hist_cases()
    shapes = G.shapes(3)
    for shape in shapes:
        for v in (0, 1, 2):
            pre, halt, single = G.VARIANTS[v]
            base = G.pattern(1, G.assign(shape, 2 if v == 0 else 1, "distinct"), pre, halt, single)
            _, nslots = inject(base, 0, [0])
            for where in range(nslots):
                for st in ([1, 2, 3], [1, 1, 2], [1, 2, 2, 3], [1, 4, 2, 3]):
                    for t in range(len(st)):
                        p, _ = inject(base, where, [t])
                        cfg = dict(phen=[(1, [p])], maxcache=0, idbase=1000)
                        cases.append((cfg, [("local", e) for e in G.events(st)], t))
    for _ in range(800 if ctx.quick else 15000):
        cfg = G.rand_config(rng, maxblocks=5)
        n = rng.randint(3, 10)
        tss = sorted(rng.sample(range(n), rng.randint(1, 2)))
        for ph, ps in cfg["phen"]:
            for i in range(len(ps)):
                if rng.random() < 0.8:
                    ps[i], _ = inject(ps[i], rng.randint(0, 50), tss)
                if rng.random() < 0.25:      # ... or raises because of what the run has accepted so far
                    q = ps[i]
                    bi = rng.randrange(len(q["blocks"]))
                    pi = rng.randrange(len(q["blocks"][bi]["preds"]))
                    q["blocks"][bi]["preds"][pi] = ("raisehist", rng.randint(0, 3), rng.randint(1, 3), q["blocks"][bi]["preds"][pi])
        cases.append((cfg, [("local", e) for e in G.events(G.rand_stream(rng, n))], tss[0]))
    return cases


_STUCK = [0]


def other_thread_blocked(dec, wait=5.0):
    """After a predicate raised, another thread (the replication threads read and fast-forward runs) must still get at
    every run: returns the accessor it is stuck in, or None."""
    import threading
    if _STUCK[0] >= 2:         # (each detection costs the full wait: two per worker process are enough)
        return None
    at = ["start"]

    def body():
        for r in dec.all_runs():
            for name in ("block_index", "is_halted", "is_complete", "history", "serialize"):
                at[0] = "BoboRun.%s of run %s" % (name, r.run_id)
                v = getattr(r, name)
                if callable(v):
                    v()
        at[0] = "BoboDecider.snapshot"
        dec.snapshot()
        at[0] = None
    th = threading.Thread(target=body, daemon=True)
    th.start()
    th.join(wait)
    if th.is_alive():
        _STUCK[0] += 1
        return at[0]
    return None


def work(case):
    cfg, ops, t_first = case
    dec, rec = SD.make_decider(cfg)
    ref = RO.RefDecider(cfg)
    cfg_f = deraise_cfg(cfg)
    dec_f, rec_f = SD.make_decider(cfg_f)
    out, fail, nontrivial = [], None, False
    diverged = False
    for k, op in enumerate(ops):
        try:
            o, lists = SD.apply_op(dec, rec, op)
        except Exception as ex:    # noqa: the engine must keep running
            return out, True, dict(signature="exception-escaped-decider", step=k,
                                   what="%s escaped BoboDecider.update()" % type(ex).__name__, detail=str(ex))
        out += o
        if lists is None:
            # update() let an exception out (the engine's loop would end) - whatever the predicate raised
            return out, True, dict(signature="exception-escaped-decider", step=k,
                                   what="an exception escaped BoboDecider.update() on event %d" % k, detail=None)
        comp, halt, upd = lists
        # which existing runs hit a raise at this event (oracle side: evaluate the rules, catching the scripted raise)
        raised, raised_pats = set(), set()
        for r in list(ref.runs):
            try:
                RO.offer(r["pat"], r["idx"], r["h"], RO.FakeE(op[1]))
            except PL.PredRaise:
                raised.add(r["id"])
                raised_pats.add((r["ph"], r["pat"]["name"]))   # (its singleton gate may differ in the other variant)
                nontrivial = True
        rep = ref.step(op[1])
        got = dict(completed=sorted(tuple(PL.enc_ser(r)) for r in comp), halted=sorted(tuple(PL.enc_ser(r)) for r in halt),
                   updated=sorted(tuple(PL.enc_ser(r)) for r in upd))
        exp = dict(completed=sorted(tuple(list(r[:4]) + r[4]) for r in rep["completed"]),
                   halted=sorted(tuple(list(r[:4]) + r[4]) for r in rep["halted"]),
                   updated=sorted(tuple(list(r[:4]) + r[4]) for r in rep["started"] + rep["advanced"]))
        act = sorted((int(r.run_id), PL.code_of(r.phenomenon_name), PL.code_of(r.pattern.name), r.block_index,
                      tuple(PL.enc_hist(r.history()))) for r in dec.all_runs())
        if fail is None and (got != exp or act != ref.active()):
            fail = dict(signature="raise-changed-detection", step=k,
                        what="after event %d (a predicate raised on runs %s) the reported or active runs are not those of "
                             "'raising run untouched, everything else as usual'" % (k, sorted(raised)),
                        detail=dict(got=got, expected=exp, active=act, expected_active=ref.active()))
        # same stream with the predicate returning False instead: identical up to and including the first raise,
        # except for the runs on which it raised
        if k <= t_first and not diverged:
            o_f, lists_f = SD.apply_op(dec_f, rec_f, op)
            if lists_f is not None and fail is None:
                def strip(lst):
                    return sorted(tuple(PL.enc_ser(r)) for r in lst if int(r.run_id) not in raised and
                                  (PL.code_of(r.phenomenon_name), PL.code_of(r.pattern_name)) not in raised_pats)
                a = [strip(x) for x in (comp, halt, upd)]
                b = [strip(x) for x in lists_f]
                if a != b:
                    fail = dict(signature="other-runs-differ-from-false-variant", step=k,
                                what="runs on which nothing raised were reported differently than when the predicate returns False",
                                detail=dict(raise_variant=a, false_variant=b))
        if raised and fail is None:
            stuck = other_thread_blocked(dec)
            if stuck:
                fail = dict(signature="run-left-locked-after-raise", step=k,
                            what="after a predicate raised on event %d another thread never returns from %s: the run is "
                                 "not as it was before the event (its lock is still held by the engine thread)" % (k, stuck),
                            detail=None)
                return out, True, fail
        if raised:
            diverged = True      # from here on the two variants legitimately differ on the runs that raised
    return out, nontrivial, fail


def run(ctx, res):
    cases = gen_cases(ctx)
    results = pmap(work, cases)
    coq_cases = []
    for (cfg, ops, t), (out, nontrivial, fail) in zip(cases, results):
        res.note_case((PL.config_coq(cfg), repr(ops), repr(cfg.get("mode"))), nontrivial)
        res.count("stream_len_%d" % min(len(ops), 12))
        m = cfg.get("mode") or {}
        res.count("raises_%s_from_%s" % (m.get("castexc") or m.get("exc") or "PredRaise", "the-cast-itself" if m.get("castexc") else
                                         "typed-predicate-cast-path" if m.get("typed") else "plain-predicate"))
        res.count("raised" if nontrivial else "raise_point_not_reached")
        coq_cases.append((SD.case_coq(cfg, ops), out))
        if fail:
            res.failures.append(dict(signature=fail["signature"], what=fail["what"],
                                     case=dict(cfg=cfg, ops=ops[:fail["step"] + 1], t_first=t), detail=fail["detail"]))
    res.failures.sort(key=lambda f: len(repr(f["case"])))
    res.samples = [dict(cfg=cases[5][0], stream=[o[1][3] for o in cases[5][1]])]
    mism, errs = common.coq_run_cases("C14", SD.IMPORTS, "run_decider", "(cdesc * list dop)", coq_cases, shard=250)
    res.errors += errs
    res.traces_validated = len(coq_cases) - len(mism)
    for idx, model_out in mism[:10]:
        res.mismatches.append(dict(case=dict(cfg=cases[idx][0], ops=cases[idx][1], t_first=cases[idx][2]),
                                   impl=coq_cases[idx][1], model=model_out))


def replay(obj):
    case = obj.get("case") or (obj.get("mismatches") or [{}])[0].get("case")
    if not case:
        print(obj)
        return 0
    cfg, ops = pC12.norm_case(case)

    def fix(p):
        return tuple(fix(x) if isinstance(x, list) and x and isinstance(x[0], str) else x for x in p)
    for _ph, ps in cfg["phen"]:
        for p in ps:
            p["pre"] = [fix(x) for x in p["pre"]]
            p["halt"] = [fix(x) for x in p["halt"]]
            for b in p["blocks"]:
                b["preds"] = [fix(x) for x in b["preds"]]
    out, _, fail = work((cfg, ops, case.get("t_first", 0)))
    model, _ = common.coq_eval("C14r", SD.IMPORTS, "run_decider %s" % SD.case_coq(cfg, ops))
    print("implementation:", out)
    print("model         :", model)
    print("oracle        :", fail or "raising predicates left detection intact")
    return 1 if (fail or model != out) else 0
